"""RF7c / RF7d writer-reader vocabulary agreement (text and binary MIR), RF7 helper queries."""
import re
from lib import facts as F
from lib import regions as R


def literal_args(f, callee, idx):
    """string literals passed as argument idx of calls to callee in function f"""
    out = []
    for n in f.walk():
        if n['k'] == 'CallExpr' and n.get('callee') == callee:
            args = F.call_args(n)
            if idx < len(args):
                a = F.strip(args[idx])
                if a['k'] == 'StringLiteral':
                    out.append((a['s'], n['l']))
    return out


def forwarding_params(tu, sink, sink_idx):
    """functions g with a parameter j that g passes on as argument sink_idx of sink: {g: j}"""
    res = {}
    for f in tu.func_list:
        pnames = [p['n'] for p in f.params]
        for n in f.walk():
            if n['k'] == 'CallExpr' and n.get('callee') == sink:
                args = F.call_args(n)
                if sink_idx < len(args):
                    a = F.strip(args[sink_idx])
                    if a['k'] == 'DeclRefExpr' and a.get('dk') == 'param' and a['n'] in pnames:
                        res[f.name] = pnames.index(a['n'])
    return res


def strcmp_literals(f):
    """{literal: line} for strcmp (x, "lit") / strcmp ("lit", x) calls"""
    out = {}
    for n in f.walk():
        if n['k'] == 'CallExpr' and n.get('callee') in ('strcmp', 'strncmp'):
            for a in F.call_args(n)[:2]:
                a = F.strip(a)
                if a['k'] == 'StringLiteral':
                    out.setdefault(a['s'], n['l'])
    return out


def enum_switches(tu, f, enum_name):
    """[(switch node, regions)] for switches of f whose condition has the given enum type"""
    out = []
    for n in f.walk():
        if n['k'] == 'SwitchStmt':
            c = F.strip(n['c'][0], explicit=False)
            t = tu.type(c)
            if t is not None and t.enum == enum_name or (c['k'] in F.CASTS and tu.type(F.strip(c)).enum == enum_name):
                out.append((n, R.switch_regions(f, n)))
    return out


def case_enum_names(regs):
    s = set()
    for r in regs:
        for (nm, lo, hi) in r['cases']:
            if nm:
                s.add(nm)
    return s


def tag_class(name):
    m = re.fullmatch(r'TAG_(U|I)\d', name)
    if m:
        return m.group(1)
    return {'TAG_F': 'F', 'TAG_D': 'D', 'TAG_LD': 'LD'}.get(name)


def rf7d(run):
    """binary writer vs reader"""
    rule = 'RF7d'
    run.rule(rule, 'binary MIR: every item keyword, token tag and data element type the writer can emit is accepted by the reader '
                   '(writer vocabulary ⊆ reader vocabulary, per tag class for data elements)')
    tu = run.tu('mir')
    wfuncs = tu.reachable(['MIR_write_module_with_func', 'MIR_write_with_func'])
    rfuncs = tu.reachable(['MIR_read_with_func'])
    if not wfuncs or not rfuncs:
        raise F.AnalysisBroken('binary writer/reader entry points not found')
    # --- keywords ---
    fw = forwarding_params(tu, 'write_name', 2)
    wkeys = {}
    for fn in sorted(wfuncs):
        f = tu.funcs[fn]
        for s, l in literal_args(f, 'write_name', 2):
            wkeys.setdefault(s, (fn, l))
        for g, j in fw.items():
            for s, l in literal_args(f, g, j):
                wkeys.setdefault(s, (fn, l))
    rkeys = {}
    for fn in sorted(rfuncs):
        for s, l in strcmp_literals(tu.funcs[fn]).items():
            rkeys.setdefault(s, (fn, l))
    for k, (fn, l) in sorted(wkeys.items()):
        ok = k in rkeys
        run.ob(rule, ('keyword', k), ok, {'keyword': k, 'written in': '%s:%d' % (fn, l),
                                          'read in': '%s:%d' % rkeys[k] if ok else 'NOWHERE'})
        if not ok:
            run.violation(rule, tu.funcs[fn], 'keyword "%s"' % k,
                          'the binary writer emits item keyword "%s" but no strcmp in the binary reader accepts it' % k, line=l)
    # --- data element types, per tag class ---
    wi = tu.func('write_item')
    wsw = [(n, regs) for n, regs in enum_switches(tu, wi, 'MIR_type_t') if F.src(n['c'][0]).endswith('el_type')]
    if len(wsw) != 1:
        raise F.AnalysisBroken('write_item: expected one switch on data->el_type, found %d' % len(wsw))
    wtypes = {}
    for r in wsw[0][1]:
        calls = [n.get('callee') for n in R.region_nodes(r['stmts']) if n['k'] == 'CallExpr' and (n.get('callee') or '').startswith('write_')]
        for (nm, lo, hi) in r['cases']:
            if nm and calls:
                wtypes[nm] = calls[0]
    # tag class each write_* helper emits: enumerators of bin_tag_t referenced in its put_byte calls
    helper_class = {}
    for h in set(wtypes.values()):
        hf = tu.func(h)
        cls = {tag_class(n['n']) for n in hf.walk() if n['k'] == 'DeclRefExpr' and n.get('dk') == 'enumc' and tag_class(n['n'])}
        helper_class[h] = cls
    rf = tu.func('MIR_read_with_func')
    # reader: switches on the token tag whose regions contain switches on the element type
    rtypes = {}
    for n, regs in enum_switches(tu, rf, 'bin_tag_t'):
        for r in regs:
            classes = {tag_class(nm) for (nm, lo, hi) in r['cases'] if nm and tag_class(nm)}
            if not classes:
                continue
            inner = set()
            for x in R.region_nodes(r['stmts']):
                if x['k'] == 'SwitchStmt':
                    c = F.strip(x['c'][0])
                    if tu.type(c) is not None and tu.type(c).enum == 'MIR_type_t':
                        inner |= case_enum_names(R.switch_regions(rf, x))
            if not inner:
                # idiom: if (type != MIR_T_F) error (…);
                for x in R.region_nodes(r['stmts']):
                    if x['k'] == 'BinaryOperator' and x['op'] in ('!=', '=='):
                        for side in x['c']:
                            sd = F.strip(side)
                            if sd['k'] == 'DeclRefExpr' and sd.get('dk') == 'enumc' and sd['n'].startswith('MIR_T_'):
                                inner.add(sd['n'])
            for c in classes:
                rtypes.setdefault(c, set()).update(inner)
    if not rtypes:
        raise F.AnalysisBroken('reader data-element switches not found')
    for t, h in sorted(wtypes.items()):
        cls = helper_class.get(h, set())
        ok = bool(cls) and all(t in rtypes.get(c, set()) for c in cls)
        run.ob(rule, ('data-el', t), ok, {'element type': t, 'writer': h, 'tag class': sorted(cls),
                                          'reader accepts under that class': sorted(rtypes.get(next(iter(cls)), set())) if cls else []})
        if not ok:
            run.violation(rule, wi, 'data element type %s' % t,
                          'write_item emits %s data elements with %s (tag class %s) but the reader\'s switch for that tag class has '
                          'no case %s: a written module cannot be read back' % (t, h, '/'.join(sorted(cls)), t),
                          line=wsw[0][0]['l'])
    # --- token tags ---
    wtags = {}
    for fn in sorted(wfuncs - rfuncs):
        for n in tu.funcs[fn].walk():
            if n['k'] == 'DeclRefExpr' and n.get('dk') == 'enumc' and n['n'].startswith('TAG_'):
                wtags.setdefault(n['n'], (fn, n['l']))
    rt = tu.func('read_token')
    rtags = {n['n'] for n in rt.walk() if n['k'] == 'DeclRefExpr' and n.get('dk') == 'enumc'}
    for n in rt.walk():
        if n['k'] == 'CaseStmt' and n.get('n'):
            rtags.add(n['n'])
    for t, (fn, l) in sorted(wtags.items()):
        ok = t in rtags
        run.ob(rule, ('tag', t), ok)
        if not ok:
            run.violation(rule, tu.funcs[fn], 'tag %s' % t, 'the binary writer emits %s but read_token has no case for it' % t, line=l)
    # --- put/get width pairs ---
    for kind in ('float', 'double', 'ldouble'):
        pw, gw = tu.func('put_' + kind), tu.func('get_' + kind)

        def loop_bound(f):
            vals = []
            for x in f.walk():
                if x['k'] == 'CallExpr' and x.get('callee') in ('put_uint', 'get_uint', 'put_int', 'get_int'):
                    v = F.const_value(F.strip(F.call_args(x)[-1]))
                    vals.append(v)
            return vals
        a, b = loop_bound(pw), loop_bound(gw)
        ok = bool(a) and None not in a and a == b
        run.ob(rule, ('width', kind), ok, {'pair': 'put_%s/get_%s' % (kind, kind), 'bytes written': a, 'bytes read': b})
        if not ok:
            run.violation(rule, pw, 'byte count of put_%s' % kind, 'put_%s writes %s bytes but get_%s reads %s' % (kind, a, kind, b),
                          line=pw.line)


FMT_WORD = re.compile(r'(?:^|[\t:])([a-z_]{3,})(?=[\t\n]|$)')


def rf7c(run):
    """text writer vs scanner"""
    rule = 'RF7c'
    run.rule(rule, 'textual MIR: every item keyword, type name and data element type the writer can print is accepted by the scanner')
    tu = run.tu('mir')
    wfuncs = tu.reachable(['MIR_output_module', 'MIR_output_item'])
    sc = tu.func('MIR_scan_string')
    skeys = strcmp_literals(sc)
    # --- keywords: words between tabs in the writer's format strings ---
    wkeys = {}
    for fn in ('MIR_output_item', 'MIR_output_module', 'output_vars', 'output_func_proto'):
        f = tu.funcs.get(fn)
        if f is None:
            continue
        for n in f.walk():
            if n['k'] == 'CallExpr' and n.get('callee') == 'fprintf':
                args = F.call_args(n)
                if len(args) >= 2:
                    a = F.strip(args[1])
                    if a['k'] == 'StringLiteral':
                        for w in FMT_WORD.findall(a['s']):
                            wkeys.setdefault(w, (fn, n['l']))
    if len(wkeys) < 10:
        raise F.AnalysisBroken('text writer keywords not recognised (%d found)' % len(wkeys))
    for k, (fn, l) in sorted(wkeys.items()):
        ok = k in skeys
        run.ob(rule, ('keyword', k), ok, {'keyword': k, 'printed in': '%s:%d' % (fn, l), 'scanned': ok})
        if not ok:
            run.violation(rule, tu.funcs[fn], 'keyword "%s"' % k,
                          'the text writer prints keyword "%s" but MIR_scan_string never compares a statement name with it' % k, line=l)
    # --- type names: type_str returns, str2type accepts, same type ---
    ts = tu.func('type_str')
    t2s = {}
    for n, regs in enum_switches(tu, ts, 'MIR_type_t'):
        for r in regs:
            lits = [x['s'] for x in R.region_nodes(r['stmts']) if x['k'] == 'StringLiteral']
            for (nm, lo, hi) in r['cases']:
                if nm and lits:
                    t2s[nm] = lits[0]
    s2t = {}
    st = tu.func('str2type')
    for n in st.walk():
        if n['k'] == 'IfStmt':
            c = F.strip(n['c'][0])
            lits = [x['s'] for x in F.walk(c) if x['k'] == 'StringLiteral']
            rets = [x for x in F.walk(n['c'][1]) if x['k'] == 'ReturnStmt'] if n['c'][1] is not None else []
            if lits and rets and any(x.get('callee') == 'strcmp' for x in F.walk(c)):
                rv = F.strip(F.kids(rets[0])[0])
                if rv['k'] == 'DeclRefExpr' and rv.get('dk') == 'enumc':
                    s2t[lits[0]] = rv['n']
    if len(t2s) < 10 or len(s2t) < 10:
        raise F.AnalysisBroken('type_str/str2type tables not recognised')
    for t, s in sorted(t2s.items()):
        if t == 'MIR_T_UNDEF':
            continue  # internal, never part of a valid module text
        ok = s2t.get(s) == t
        run.ob(rule, ('type', t), ok, {'type': t, 'printed as': s, 'scanned as': s2t.get(s)})
        if not ok:
            run.violation(rule, ts, 'type name "%s"' % s, 'type_str prints %s as "%s" but str2type maps "%s" to %s' % (t, s, s, s2t.get(s)),
                          line=ts.line)
    # --- data element types ---
    of = tu.func('_MIR_output_data_item_els')
    wsw = [regs for n, regs in enum_switches(tu, of, 'MIR_type_t')]
    if len(wsw) != 1:
        raise F.AnalysisBroken('_MIR_output_data_item_els: expected one switch on the element type')
    wtypes = case_enum_names(wsw[0])
    ssw = [(n, regs) for n, regs in enum_switches(tu, sc, 'MIR_type_t') if F.src(n['c'][0]) == 'data_type']
    if len(ssw) != 1:
        raise F.AnalysisBroken('MIR_scan_string: expected one switch on data_type, found %d' % len(ssw))
    stypes = case_enum_names(ssw[0][1])
    for t in sorted(wtypes):
        ok = t in stypes
        run.ob(rule, ('data-el', t), ok, {'element type': t, 'printed': True, 'scanner case': ok})
        if not ok:
            run.violation(rule, of, 'data element type %s' % t,
                          'the text writer prints data items of element type %s but the scanner\'s switch on data_type has no case '
                          'for it ("wrong data clause")' % t, line=ssw[0][0]['l'])


def rf22(run, entries=('MIR_scan_string',)):
    """character input functions: a byte fetched from a char buffer must go through unsigned char before it shares an int
    with EOF, otherwise byte 0xFF is indistinguishable from end of input (and bytes >= 0x80 become negative)"""
    rule = 'RF22'
    run.rule(rule, 'scanner input: an int-returning character fetcher that can return EOF converts the fetched char through '
                   'unsigned char (plain char is signed in this build: byte 0xFF would equal EOF)')
    tu = run.tu('mir')
    fs = tu.reachable(entries)
    n = 0
    for fn in sorted(fs):
        f = tu.funcs[fn]
        rt = tu.types[f.ret]
        if rt.kind != 'int' or rt.w != 32:
            continue
        rets = [r for r in f.walk() if r['k'] == 'ReturnStmt' and F.kids(r)]
        if not any(F.const_value(F.strip(F.kids(r)[0])) == -1 for r in rets):
            continue
        # values returned through a local: follow one level of `int ch = <expr>` / `ch = <expr>`
        sources = []
        for r in rets:
            e = F.strip(F.kids(r)[0], explicit=False)
            if e['k'] == 'DeclRefExpr' and e.get('dk') == 'local':
                for x in f.walk():
                    if x['k'] == 'DeclStmt':
                        for d in x['decls']:
                            if d['n'] == e['n'] and d.get('init') is not None:
                                sources.append(d['init'])
                    if x['k'] == 'BinaryOperator' and x['op'] == '=' and F.src(F.strip(x['c'][0])) == e['n']:
                        sources.append(x['c'][1])
            else:
                sources.append(F.kids(r)[0])
        for s in sources:
            # an implicit IntegralCast char -> int directly over an lvalue read of type (signed) char
            x = s
            if x['k'] == 'ImplicitCastExpr' and x.get('ck') == 'IntegralCast':
                inner = x['c'][0]
                it = tu.type(inner)
                if it is not None and it.kind == 'int' and it.w == 8 and it.signed and \
                        F.strip(inner, explicit=False)['k'] in ('ArraySubscriptExpr', 'UnaryOperator', 'MemberExpr', 'DeclRefExpr'):
                    n += 1
                    run.ob(rule, (fn, s['l']), False, {'function': fn, 'fetch': F.src(s), 'verdict': 'signed char widened to int next to EOF'})
                    run.violation(rule, f, 'fetch %s' % F.src(s),
                                  '%s returns EOF (-1) and also the signed char %s widened to int: input byte 0xFF is taken for end of '
                                  'input and bytes >= 0x80 become negative' % (fn, F.src(s)), line=s['l'])
                    continue
            if any(y['k'] in ('ArraySubscriptExpr',) for y in F.walk(s)) or s['k'] in F.CASTS:
                n += 1
                run.ob(rule, (fn, s['l']), True, {'function': fn, 'fetch': F.src(s, casts=True), 'verdict': 'converted before widening'})
    return n


def rf15(run):
    """label tables of both readers are module-scoped: lref items (outside any function) and function bodies must resolve a
    label name/number to one label object"""
    import rf_proto
    rule = 'RF15'
    run.rule(rule, 'both MIR readers keep their label table for a whole module: the table (label_desc_tab in the scanner, func_labels in '
                   'the binary reader) is reset only where a module starts, never per function, and labels of lref items are taken '
                   'from that table')
    tu = run.tu('mir')
    sites = (('MIR_scan_string', lambda x: x['k'] == 'CallExpr' and (x.get('callee') or '').startswith('HTAB_') and x['callee'].endswith('clear')
              and 'label_desc_tab' in F.src(F.call_args(x)[0])),
             ('MIR_read_with_func', lambda x: x['k'] == 'CallExpr' and (x.get('callee') or '').startswith('VARR_') and x['callee'].endswith('trunc')
              and 'func_labels' in F.src(F.call_args(x)[0])))
    for fn, pred in sites:
        f = tu.func(fn)
        cfg = f.cfg
        run.functions_analysed.add(('mir', fn))
        resets = [x for x in f.walk() if pred(x)]
        if not resets:
            run.ob(rule, (fn, 'reset'), False)
            run.violation(rule, f, 'label table reset', '%s never resets its label table: labels of one module leak into the next' % fn, line=f.line)
            continue
        for r in resets:
            b = cfg.block_of(r)
            conds = rf_proto.dominating_conditions(cfg, b) if b is not None else []
            mod = any(('module' in c and 'end' not in c) and t for c, t in conds)
            per_func = any(('func' in c and 'module' not in c) and t for c, t in conds) and not mod
            ok = mod and not per_func
            run.ob(rule, (fn, r['l']), ok, {'function': fn, 'reset at line': r['l'], 'under': ['%s=%s' % (c[:50], t) for c, t in conds if t][:4]})
            if not ok:
                run.violation(rule, f, 'label table reset outside the module start',
                              '%s resets its label table at line %d, not (only) where a module starts: an lref item and the function that '
                              'defines its label would get different label objects' % (fn, r['l']), line=r['l'])
    # lref labels come from the table
    rf = tu.func('MIR_read_with_func')
    for c in [x for x in rf.walk() if x['k'] == 'CallExpr' and x.get('callee') == 'MIR_new_lref_data']:
        args = F.call_args(c)
        labs = [F.src(F.strip(a)) for a in args[2:4]]
        ok = True
        for lv in labs:
            defs = [x for x in rf.walk() if x['k'] == 'BinaryOperator' and x['op'] == '=' and F.src(F.strip(x['c'][0])) == lv]
            for d in defs:
                for y in F.walk(d['c'][1]):
                    if y['k'] == 'CallExpr' and y.get('callee') == 'create_label':
                        ok = False
        run.ob(rule, ('lref-labels', c['l']), ok, {'lref labels': labs, 'from the label table': ok})
        if not ok:
            run.violation(rule, rf, 'lref label provenance', 'the binary reader creates fresh labels for an lref item instead of taking them '
                          'from its label table', line=c['l'])
    cl = [g.name for g in tu.func_list for x in g.walk() if x['k'] == 'CallExpr' and x.get('callee') == 'create_label'
          and g.name in tu.reachable(['MIR_read_with_func']) and g.name != 'to_lab' and g.name != 'MIR_new_label']
    ok = not cl
    run.ob(rule, ('create_label-callers',), ok, {'callers of create_label in the reader': sorted(set(cl))})
    if not ok:
        run.violation(rule, tu.funcs[cl[0]], 'create_label outside to_lab', 'create_label is called in the binary reader from %s, outside the '
                      'label table function to_lab' % sorted(set(cl)), line=tu.funcs[cl[0]].line)


# ---------------------------------------------------------------------------------------------
# RF7j: the byte callbacks are the only sink / source of the binary writer / reader
# ---------------------------------------------------------------------------------------------

def rf7j(run):
    rule = 'RF7j'
    run.rule(rule, 'binary I/O: the FILE* remembered in the context (io_file) is read only by the two one-line adaptors file_writer / '
                   'file_reader and assigned only by functions that immediately pass the matching adaptor to the *_with_func entry '
                   'point; the compression sink/source (reduce_writer / reduce_reader) move every byte through io_writer / io_reader. '
                   'So a stream produced through a user callback is byte-for-byte what a FILE* would have received')
    tu = run.tu('mir')
    n = 0
    readers, writers = [], []
    for f in tu.func_list:
        if f.body is None or not f.relfile().endswith('mir.c'):
            continue
        par = None
        for x in f.walk():
            if x['k'] == 'MemberExpr' and x['n'] == 'io_file':
                p = f.parent_of(x)
                while p is not None and p['k'] in F.CASTS or (p is not None and p['k'] == 'ParenExpr'):
                    p = f.parent_of(p)
                is_write = p is not None and p['k'] == 'BinaryOperator' and p['op'] == '=' and F.strip(p['c'][0]) is x
                (writers if is_write else readers).append((f, x, p))
    if not readers or not writers:
        raise F.AnalysisBroken('no uses of io_file found in mir.c')
    ADAPT = {'file_writer': ('fputc', 'MIR_write_module_with_func'), 'file_reader': ('fgetc', 'MIR_read_with_func')}
    for f, x, p in readers:
        n += 1
        ok = f.name in ADAPT
        run.functions_analysed.add(('mir', f.name))
        run.ob(rule, ('io_file-read', f.name, x['l']), ok, {'function': f.name, 'line': x['l']})
        if not ok:
            run.violation(rule, f, 'read of io_file', '%s uses the remembered FILE* directly: after any FILE-based call the context keeps that '
                          'pointer, so a later callback-based write/read would go to the stale FILE instead of the callback' % f.name, line=x['l'])
    for f, x, p in writers:
        n += 1
        run.functions_analysed.add(('mir', f.name))
        cfg = f.cfg
        b = cfg.block_of(p)
        tg = set()
        for ad, (_io, entry) in ADAPT.items():
            tg |= rf_flow_blocks(cfg, lambda z: z['k'] == 'CallExpr' and z.get('callee') == entry
                                 and any(F.strip(a)['k'] == 'DeclRefExpr' and F.strip(a)['n'] == ad for a in F.call_args(z)))
        if F.const_value(p['c'][1]) == 0:
            run.ob(rule, ('io_file-clear', f.name, x['l']), True, {'function': f.name, 'clears the remembered FILE*': True})
            continue
        rhs_param = F.strip(p['c'][1])['k'] == 'DeclRefExpr' and F.strip(p['c'][1]).get('dk') == 'param'
        seen = cfg.reachable_from(b, avoid=lambda q: q in tg) if b is not None else {cfg.exit}
        ok = b is not None and rhs_param and bool(tg) and (b in tg or cfg.exit not in seen)
        run.ob(rule, ('io_file-write', f.name, x['l']), ok, {'function': f.name, 'assigned from a FILE* parameter': rhs_param,
                                                            'followed by the adaptor call on every path': ok})
        if not ok:
            run.violation(rule, f, 'assignment of io_file', '%s sets the remembered FILE* without handing file_writer/file_reader to the '
                          '*_with_func entry point on every path' % f.name, line=x['l'])
    # adaptors are one call of the stdio byte function on io_file
    for ad, (io, _e) in ADAPT.items():
        f = tu.func(ad)
        calls = [z for z in f.walk() if z['k'] == 'CallExpr']
        ok = len(calls) == 1 and calls[0].get('callee') == io
        n += 1
        run.ob(rule, ('adaptor', ad), ok, {'adaptor': ad, 'body': F.src(F.kids(f.body)[0])[:60] if F.kids(f.body) else ''})
        if not ok:
            run.violation(rule, f, 'adaptor %s' % ad, '%s must be exactly one %s on io_file' % (ad, io), line=f.line)
    # the compression sink / source use the callbacks for every byte
    for fn, cb in (('reduce_writer', 'io_writer'), ('reduce_reader', 'io_reader')):
        f = tu.func(fn)
        run.functions_analysed.add(('mir', fn))
        cfg = f.cfg
        cbb = rf_flow_blocks(cfg, lambda z: z['k'] == 'CallExpr' and z.get('callee') is None and F.src(F.strip(z['c'][0])).endswith('->' + cb))
        stdio = [z for z in f.walk() if z['k'] == 'CallExpr' and z.get('callee') in ('fwrite', 'fread', 'fputc', 'fgetc', 'putc', 'getc', 'fputs', 'write', 'read')]
        rets = [r for r in f.walk() if r['k'] == 'ReturnStmt']
        # every return lies after the byte loop: no return is reachable from the entry without passing the loop header that guards the callback
        hdrs = {H.id for H in cfg.blocks.values() if H.cond is not None and len(H.succs) == 2 and any(s_ in cbb or (s_ is not None and cbb & cfg.reachable_from(s_, avoid=lambda q: q == H.id)) for s_ in H.succs[:1])}
        early = cfg.exit in cfg.reachable_from(cfg.entry, avoid=lambda q: q in hdrs) if hdrs else True
        ok = bool(cbb) and not stdio and not early
        n += 1
        run.ob(rule, ('sink', fn), ok, {'function': fn, 'calls %s' % cb: bool(cbb), 'stdio calls': [z['callee'] for z in stdio],
                                       'can return before the byte loop': early})
        if not ok:
            run.violation(rule, f, 'byte path of %s' % fn, '%s %s: bytes can bypass the %s callback'
                          % (fn, 'calls %s directly' % stdio[0]['callee'] if stdio else 'can return without entering the per-byte loop', cb),
                          line=(stdio[0]['l'] if stdio else f.line))
    return n


def rf_flow_blocks(cfg, pred):
    import rf_flow
    return rf_flow.blocks_with(cfg, pred)


# ---------------------------------------------------------------------------------------------
# RF22b: the scanner's numeric conversion does not reject on errno
# ---------------------------------------------------------------------------------------------

def rf22b(run):
    rule = 'RF22b'
    run.rule(rule, 'text scanner: after strtof/strtod/strtold no error exit is taken because errno is set. The writer prints every '
                   'finite value, including subnormal ones, and the C library is allowed to (glibc does) report ERANGE for a '
                   'conversion whose result is subnormal; rejecting on errno makes the scanner refuse numbers the writer produced')
    from rf_proto import dominating_conditions
    from lib import absint as AI
    tu = run.tu('mir')
    f = tu.func('scan_token')
    run.functions_analysed.add(('mir', f.name))
    conv = [x for x in f.walk() if x['k'] == 'CallExpr' and x.get('callee') in ('strtof', 'strtod', 'strtold')]
    if len(conv) < 3:
        raise F.AnalysisBroken('scan_token: strtof/strtod/strtold conversions not found')
    cfg = f.cfg
    n = 0
    for x in f.walk():
        if x['k'] != 'CallExpr':
            continue
        is_err = x.get('callee') == 'scan_error' or AI.is_error_call(x) is not None
        if not is_err:
            continue
        b = cfg.block_of(x)
        if b is None:
            continue
        conds = dominating_conditions(cfg, b)
        on_errno = [c for c, t in conds if 'errno' in c or '__errno_location' in c]
        n += 1
        ok = not on_errno
        run.ob(rule, ('error-exit', x['l']), ok, {'error exit at line': x['l'], 'guarded by errno': on_errno})
        if not ok:
            run.violation(rule, f, 'error exit on errno', 'scan_token raises a scan error when %s: ERANGE is also reported for subnormal '
                          'results, so floating-point immediates and data below the smallest normal number that MIR_output prints are '
                          'rejected on read-back' % on_errno[0], line=x['l'])
    if n == 0:
        raise F.AnalysisBroken('scan_token: no error exits found')
    return n


# ---------------------------------------------------------------------------------------------
# RF37: floating-point constants are printed with enough digits to be read back exactly
# ---------------------------------------------------------------------------------------------

FP_NEED = {'float': 9, 'double': 17, 'long double': 21}   # decimal digits that identify every value (x87 extended: 21)


def rf37(run, unit, entries):
    import re
    rule = 'RF37'
    run.rule(rule, 'every printf conversion that writes a float / double / long double operand or data element in the textual writer '
                   '(mir.c) and in the C translator (mir2c) is %e / %g with at least 9 / 17 / 21 significant digits (or %a): fewer digits '
                   'do not identify the binary value, so the text read back (or the C constant compiled) differs from the MIR value')
    tu = run.tu(unit)
    fs = tu.reachable(entries)
    conv = re.compile(r'%([-#0 +]*)([0-9]*|\*)(?:\.([0-9]+|\*))?(hh|h|ll|l|L|z|j|t)?([a-zA-Z%])')
    n = 0
    for fn in sorted(fs):
        f = tu.funcs.get(fn)
        if f is None or f.body is None:
            continue
        for x in f.walk():
            if x['k'] != 'CallExpr' or x.get('callee') != 'fprintf':
                continue
            args = F.call_args(x)
            if len(args) < 2 or F.src(F.strip(args[0])) == 'stderr':
                continue
            fmt = F.strip(args[1])
            if fmt['k'] != 'StringLiteral':
                continue
            ai = 2
            for m in conv.finditer(fmt['s']):
                flags, width, prec, lenm, c = m.groups()
                if c == '%':
                    continue
                pv = None
                if width == '*':
                    ai += 1
                if prec == '*':
                    pv = F.const_value(args[ai]) if ai < len(args) else None
                    ai += 1
                elif prec is not None:
                    pv = int(prec)
                a = args[ai] if ai < len(args) else None
                ai += 1
                if a is not None and c not in 'eEgGfFaA':
                    # a floating value pushed through an integer conversion loses -0.0, NaN, infinities and fractions
                    lossy = [y for y in F.walk(a) if y.get('ck') == 'FloatingToIntegral']
                    if lossy:
                        n += 1
                        run.functions_analysed.add((unit, fn))
                        run.ob(rule, (unit, fn, x['l'], m.start(), 'int'), False, {'site': '%s:%d' % (f.relfile(), x['l']), 'conversion': m.group(0),
                                                                                  'argument': F.src(a, casts=True)[:60]})
                        run.violation(rule, f, 'floating value printed through %s' % m.group(0),
                                      '%s prints a floating-point value converted to an integer (%s): the sign of -0.0 (and any value that '
                                      'is not exactly that integer) is lost, so the text does not denote the MIR value'
                                      % (fn, F.src(a, casts=True)[:60]), line=x['l'])
                if c not in 'eEgGfFaA' or a is None:
                    continue
                at = tu.type(F.strip(a, explicit=False))
                tname = 'long double' if lenm == 'L' else ('float' if at is not None and at.s.strip() == 'float' else 'double')
                run.functions_analysed.add((unit, fn))
                n += 1
                if c in 'aA':
                    run.ob(rule, (unit, fn, x['l'], m.start()), True, {'site': '%s:%d' % (f.relfile(), x['l']), 'conversion': m.group(0), 'verdict': 'hexadecimal: exact'})
                    continue
                if unit == 'mir2c' and c in 'gG' and '#' not in (flags or ''):
                    n += 1
                    run.ob(rule, (unit, fn, x['l'], m.start(), 'point'), False, {'site': '%s:%d' % (f.relfile(), x['l']), 'conversion': m.group(0), 'type': tname})
                    run.violation(rule, f, 'conversion %s drops the decimal point' % m.group(0),
                                  '%s prints a %s into the C text with %s: without the `#` flag %%g writes an integral value as `5`, an integer '
                                  'constant in C — `ddiv d, 1.0, 4.0` becomes `d = 1 / 4;` (0), and an integral double in the variadic part of a '
                                  'call is passed as an int' % (fn, tname, m.group(0)), line=x['l'])
                need = FP_NEED[tname]
                if c in 'fF':
                    ok, digits = False, None
                elif pv is None:
                    ok, digits = False, None
                else:
                    digits = pv + 1 if c in 'eE' else pv
                    ok = digits >= need
                run.ob(rule, (unit, fn, x['l'], m.start()), ok, {'site': '%s:%d' % (f.relfile(), x['l']), 'conversion': m.group(0), 'type': tname,
                                                                'significant digits': digits, 'needed': need})
                if not ok:
                    run.violation(rule, f, 'conversion %s of a %s' % (m.group(0), tname),
                                  '%s prints a %s with %s: %s significant digits; %d are needed to identify every value, so the printed '
                                  'constant does not denote the value held by the MIR operand' % (fn, tname, m.group(0),
                                                                                                  digits if digits is not None else 'an unbounded/fixed number of', need), line=x['l'])
    return n


# ---------------------------------------------------------------------------------------------
# RF7k: labels in front of endfunc (a function ending in a label) are read back
# ---------------------------------------------------------------------------------------------

def rf7k(run):
    rule = 'RF7k'
    run.rule(rule, 'both readers (MIR_scan_string, MIR_read_with_func): the branch that handles `endfunc` appends the pending labels to '
                   'the function (the writers print a function\'s trailing labels right before `endfunc`) and raises no error that '
                   'depends on the number of pending labels')
    tu = run.tu('mir')
    n = 0
    for fn, pend in (('MIR_scan_string', 'label_names'), ('MIR_read_with_func', 'insn_label_string_nums')):
        f = tu.func(fn)
        run.functions_analysed.add(('mir', fn))
        site = None
        for x in f.walk():
            if x['k'] == 'IfStmt' and 'strcmp(name, "endfunc")' in F.src(x['c'][0]).replace('strcmp (', 'strcmp('):
                site = x
        if site is None:
            raise F.AnalysisBroken('%s: the endfunc branch was not found' % fn)
        th = site['c'][1]
        appends = [y for y in F.walk(th) if y['k'] == 'CallExpr' and y.get('callee') == 'MIR_append_insn'
                   and any(z['k'] == 'CallExpr' and z.get('callee') in ('to_lab', 'create_label_desc') for z in F.walk(y))]
        errs = []
        for y in F.walk(th):
            if y['k'] == 'IfStmt' and pend in F.src(y['c'][0]):
                from lib import absint as AI
                if any(z['k'] == 'CallExpr' and (z.get('callee') == 'scan_error' or AI.is_error_call(z) is not None) for z in F.walk(y['c'][1])):
                    errs.append(y)
        ok = bool(appends) and not errs
        n += 1
        run.ob(rule, (fn,), ok, {'reader': fn, 'appends pending labels at endfunc': bool(appends), 'rejects pending labels': bool(errs)})
        if not ok:
            run.violation(rule, f, 'labels before endfunc in %s' % fn,
                          '%s %s: a function whose last instruction is a label is printed/written by the writers but cannot be read back'
                          % (fn, 'raises an error when labels precede endfunc' if errs else 'drops the labels that precede endfunc'),
                          line=(errs[0]['l'] if errs else site['l']))
    return n


# ---------------------------------------------------------------------------------------------
# RF75: a token's payload is read by the function that read its tag
# ---------------------------------------------------------------------------------------------

def rf75(run):
    rule = 'RF75'
    run.rule(rule, 'binary reader: the payload readers get_uint / get_int / get_float / get_double / get_ldouble are called either by each other '
                   'or, in any other function, only after that function has itself fetched the tag byte (a get_byte call that dominates the '
                   'payload read).  A function that obtains its token from read_token already has the payload in the attribute and must '
                   'not read the stream again (the following bytes would be eaten)')
    tu = run.tu('mir')
    RAW = {'get_uint', 'get_int', 'get_float', 'get_double', 'get_ldouble'}
    n = 0
    for f in tu.func_list:
        if not f.file.endswith('/mir.c') or f.name in RAW:
            continue
        calls = [x for x in f.walk() if x['k'] == 'CallExpr' and x.get('callee') in RAW]
        if not calls:
            continue
        cfg = f.cfg
        idom = cfg.dominators()
        tags = [cfg.block_of(x) for x in f.walk() if x['k'] == 'CallExpr' and x.get('callee') == 'get_byte']
        run.functions_analysed.add(('mir', f.name))
        for c in calls:
            b = cfg.block_of(c)
            ok = any(t is not None and (t == b or cfg.dominates(t, b, idom)) for t in tags)
            n += 1
            run.ob(rule, (f.name, c['l']), ok, {'site': '%s:%d %s' % (f.relfile(), c['l'], f.name), 'payload read': F.src(c)[:50],
                                               'tag fetched in the same function': ok})
            if not ok:
                via = sorted({x.get('callee') for x in f.walk() if x['k'] == 'CallExpr' and x.get('callee') in ('read_token', 'read_name')})
                run.violation(rule, f, 'second read of a token payload', '%s calls %s although it does not fetch the tag byte itself (it gets its '
                              'tokens from %s, which has already consumed the payload): the next bytes of the stream are read as the payload and '
                              'the reader fails on, or misreads, what the writer produced' % (f.name, F.src(c)[:50], ', '.join(via) or 'its caller'),
                              line=c['l'])
    if n < 8:
        raise F.AnalysisBroken('binary reader: only %d payload reads found' % n)
    return n


# ---------------------------------------------------------------------------------------------
# RF80: the string writer prints every byte of the string
# ---------------------------------------------------------------------------------------------

def rf80(run):
    from lib import linstate as LS
    rule = 'RF80'
    run.rule(rule, 'MIR_output_str (used for string operands by the text writer and by mir2c): the loop that prints the bytes runs from 0 to '
                   'str.len on every path (exact linear forms, forking on undecidable conditions).  The scanner appends a terminating zero '
                   'only to a payload that does not end in one, so a writer that drops a final zero byte changes strings ending in two '
                   'zero bytes and the one-byte string "\\0"')
    tu = run.tu('mir')
    f = tu.func('MIR_output_str')
    run.functions_analysed.add(('mir', f.name))
    stmts = F.kids(f.body)
    loops = [i for i, s_ in enumerate(stmts) if s_['k'] == 'ForStmt']
    if len(loops) != 1:
        raise F.AnalysisBroken('MIR_output_str: the byte loop was not found at the top level of the function')
    li = loops[0]
    loop = stmts[li]
    sym = LS.Sym()
    states = sym.run(stmts[:li], {}, None)
    cond = F.strip(loop['c'][1])
    init = loop['c'][0]
    if not (cond['k'] == 'BinaryOperator' and cond['op'] == '<'):
        raise F.AnalysisBroken('MIR_output_str: loop condition is not `i < bound`')
    n = 0
    want = LS.Lin({'str.len': 1})
    forms = set()
    for st in states:
        st2 = sym.run([init], dict(st), None)[0] if init is not None else st
        lo = sym.ev(cond['c'][0], st2)
        hi = sym.ev(cond['c'][1], st2)
        forms.add((repr(lo), repr(hi)))
        n += 1
        ok = lo.key() == LS.Lin(const=0).key() and hi.key() == want.key()
        run.ob(rule, ('path', n), ok, {'first index': repr(lo), 'bound': repr(hi)})
        if not ok:
            run.violation(rule, f, 'bytes printed', 'on a path through MIR_output_str the byte loop runs from %r to %r instead of 0 to str.len: '
                          'bytes of the string are not written (a final zero byte dropped by the writer is only restored by the scanner when '
                          'the remaining payload does not itself end in a zero byte)' % (lo, hi), line=loop['l'])
            break
    return n


# ---------------------------------------------------------------------------------------------
# RF82: the binary writer emits every non-default field of a memory operand
# ---------------------------------------------------------------------------------------------

def rf82(run):
    import itertools
    from lib import printexec as PE
    from lib import regions as R
    rule = 'RF82'
    run.rule(rule, 'write_op, MIR_OP_MEM case, executed abstractly for the 32 combinations of zero / non-zero displacement, base, index, alias '
                   'and nonalias: a non-zero displacement is written by write_int, a base and an index by write_reg (the index with its '
                   'scale by write_uint), and when either alias name is present both names are written by write_name; the tag byte '
                   'differs whenever the set of written fields differs, and for every tag read_operand, executed the same way, consumes the same '
                   'fields in the same order')
    tu = run.tu('mir')
    f = tu.func('write_op')
    run.functions_analysed.add(('mir', f.name))
    sws = R.find_switches(f, lambda c: c.replace(' ', '').endswith('.mode'))
    if not sws:
        raise F.AnalysisBroken('write_op: switch on the operand mode not found')
    reg = [r for r in R.switch_regions(f, sws[0]) if 'MIR_OP_MEM' in [c[0] for c in r['cases']]]
    if not reg:
        raise F.AnalysisBroken('write_op: no MIR_OP_MEM case')
    stmts = reg[0]['stmts']
    ty = dict(tu.enum('MIR_type_t'))
    n = 0
    tags = {}
    wseq = {}
    WM = {'write_type': 'type', 'write_int': 'int', 'write_reg': 'reg', 'write_uint': 'uint', 'write_name': 'name'}
    for disp, base, index, alias, nonalias in itertools.product((0, 7), (0, 1), (0, 2), (0, 3), (0, 4)):
        env = {'op.u.mem.disp': disp, 'op.u.mem.base': base, 'op.u.mem.index': index, 'op.u.mem.alias': alias, 'op.u.mem.nonalias': nonalias,
               'op.u.mem.scale': 8, 'op.u.mem.type': ty['MIR_T_I64'], 'output_mem_len': 0}
        log = []

        def rec(name):
            def fn(args, env_, ex, name=name):
                v = ex.val(args[2], env_) if len(args) > 2 else None
                log.append((name, v))
                return 1
            return fn
        acc = {nm: rec(nm) for nm in ('put_byte', 'write_int', 'write_uint', 'write_reg', 'write_name', 'write_type')}
        acc['MIR_reg_name'] = lambda a, e, x: ('reg', x.val(a[1], e))
        acc['MIR_alias_name'] = lambda a, e, x: ('alias', x.val(a[1], e))
        ex = PE.PrintExec(tu, {}, acc, {})
        # values of accessor results are tuples: let the evaluator pass them through
        for st in stmts:
            r = ex.run(st, env)
            if r in ('break', 'return'):
                break
        got = {}
        for nm, v in log:
            got.setdefault(nm, []).append(v)
        why = None
        if len(got.get('put_byte', [])) != 1 or not isinstance(got['put_byte'][0], int):
            why = 'the tag byte is not written exactly once'
        elif disp and disp not in got.get('write_int', []):
            why = 'the displacement %d is not written' % disp
        elif base and ('reg', base) not in got.get('write_reg', []):
            why = 'the base register is not written'
        elif index and (('reg', index) not in got.get('write_reg', []) or 8 not in got.get('write_uint', [])):
            why = 'the index register / scale is not written'
        elif (alias or nonalias) and not (('alias', alias) in got.get('write_name', []) and ('alias', nonalias) in got.get('write_name', [])):
            why = 'the alias names (alias=%d, nonalias=%d) are not written' % (alias, nonalias)
        n += 1
        run.ob(rule, (disp, base, index, alias, nonalias), why is None,
               {'disp/base/index/alias/nonalias': (disp, base, index, alias, nonalias), 'written': sorted(got)} if n % 8 == 1 or why else None)
        if why:
            run.violation(rule, f, 'memory operand fields', 'for a memory operand with disp=%d base=%d index=%d alias=%d nonalias=%d %s: the operand '
                          'read back from the binary differs from the one written' % (disp, base, index, alias, nonalias, why), line=stmts[0]['l'])
        elif isinstance(got['put_byte'][0], int):
            fields = (bool(disp) or not (base or index), bool(base), bool(index), bool(alias or nonalias))
            tags.setdefault(got['put_byte'][0], set()).add(fields)
            wseq.setdefault(got['put_byte'][0], [k_ for k_ in (WM.get(nm) for nm, v in log) if k_])
    # reader side: for every tag the writer produced, read_operand consumes exactly the fields the writer emitted, in the same order
    g = tu.func('read_operand')
    run.functions_analysed.add(('mir', g.name))
    gsw = [s_ for s_ in R.find_switches(g) if F.src(s_['c'][0]).strip() == 'tag']
    if not gsw:
        raise F.AnalysisBroken('read_operand: switch on the tag not found')
    gregs = R.switch_regions(g, gsw[0])
    WMAP = {'write_type': 'type', 'write_int': 'int', 'write_reg': 'reg', 'write_uint': 'uint', 'write_name': 'name'}
    for t in sorted(wseq):
        idx = [i for i, r_ in enumerate(gregs) if any(lo is not None and lo <= t <= (hi if hi is not None else lo) for (nm_, lo, hi) in r_['cases'])]
        if not idx:
            n += 1
            run.ob(rule, ('reader', t), False)
            run.violation(rule, g, 'tag %d not read' % t, 'read_operand has no case for tag %d, which write_op produces for a memory operand' % t, line=gsw[0]['l'])
            continue
        stmts_r = []
        j = idx[0]
        while True:
            stmts_r += gregs[j]['stmts']
            if gregs[j]['falls_into'] is None:
                break
            j = gregs[j]['falls_into']
        rlog = []

        def rrec(kind):
            def fn(args, env_, ex, kind=kind):
                rlog.append(kind)
                return 1
            return fn
        racc = {'read_type': rrec('type'), 'read_disp': rrec('int'), 'read_reg': rrec('reg'), 'read_uint': rrec('uint'), 'read_name': rrec('name'),
                'MIR_new_mem_op': lambda a, e, x: 1, 'MIR_alias': lambda a, e, x: 1, 'strcmp': lambda a, e, x: 1}
        rex = PE.PrintExec(tu, {}, racc, {})
        renv = {'tag': t, 'alias_p': 0}
        for st in stmts_r:
            r_ = rex.run(st, renv)
            if r_ in ('break', 'return'):
                break
        n += 1
        ok = rlog == wseq[t]
        run.ob(rule, ('reader', t), ok, {'tag': t, 'written': wseq[t], 'read': rlog})
        if not ok:
            run.violation(rule, g, 'reader of tag %d' % t, 'for tag %d write_op emits the fields %s but read_operand consumes %s: the stream is '
                          'misread from this operand on' % (t, wseq[t], rlog), line=gsw[0]['l'])
    for t, fs in sorted(tags.items()):
        n += 1
        ok = len(fs) == 1
        run.ob(rule, ('tag', t), ok, {'tag': t, 'field sets': sorted(fs)})
        if not ok:
            run.violation(rule, f, 'tag %d ambiguous' % t, 'tag %d is written for different field sets %s (disp, base, index, alias): the reader '
                          'cannot know which fields follow' % (t, sorted(fs)), line=stmts[0]['l'])
    return n


# ---------------------------------------------------------------------------------------------
# RF85: every item name read from text passes the reserved-name bookkeeping
# ---------------------------------------------------------------------------------------------

def rf85(run):
    rule = 'RF85'
    run.rule(rule, 'MIR_scan_string: the module keeps the highest number of the reserved `.lcN` item names (last_temp_item_num); loading the '
                   'module creates `.lc<last+1>` items for string and floating-point immediates.  Every path from the place where a label '
                   'name is recorded (label_names) to a call that creates a named data item (data, string, bss, ref, lref, expr) passes '
                   'process_reserved_name for the temp-item prefix; otherwise a read-back module that names a bss / ref / lref item '
                   '`.lcN` cannot be loaded (repeated item declaration)')
    tu = run.tu('mir')
    f = tu.func('MIR_scan_string')
    run.functions_analysed.add(('mir', f.name))
    cfg = f.cfg
    push = [x for x in f.walk() if x['k'] == 'CallExpr' and (x.get('callee') or '').startswith('VARR_label_name_t') and (x.get('callee') or '').endswith('push')]
    if not push:
        raise F.AnalysisBroken('MIR_scan_string: recording of label names not found')
    pb = cfg.block_of(push[0])
    marks = set()
    for x in f.walk():
        if x['k'] == 'CallExpr' and x.get('callee') == 'process_reserved_name' and 'last_temp_item_num' in F.src(x):
            marks.add(cfg.block_of(x))
    # helpers of the unit that do the bookkeeping themselves
    helpers = set()
    for g in tu.func_list:
        if g.name != f.name and any(y['k'] == 'CallExpr' and y.get('callee') == 'process_reserved_name' and 'last_temp_item_num' in F.src(y) for y in g.walk()):
            helpers.add(g.name)
    for x in f.walk():
        if x['k'] == 'CallExpr' and x.get('callee') in helpers:
            marks.add(cfg.block_of(x))
    # `if (module != NULL) process_reserved_name (…)`: outside a module there is no counter to keep
    for B in cfg.blocks.values():
        if B.cond is not None and len(B.succs) == 2 and F.src(F.strip(B.cond)).replace(' ', '').strip('()') in ('module!=0', 'module!=NULL', 'module') \
                and B.succs[0] in marks:
            marks.add(B.id)
    creators = ('MIR_new_data', 'MIR_new_string_data', 'MIR_new_bss', 'MIR_new_ref_data', 'MIR_new_lref_data', 'MIR_new_expr_data')
    n = 0
    reach = cfg.reachable_from(pb, avoid=lambda b: b in marks and b != pb)
    same_block_ok = pb in marks
    for x in f.walk():
        if x['k'] == 'CallExpr' and x.get('callee') in creators:
            b = cfg.block_of(x)
            n += 1
            ok = same_block_ok or b not in reach or b in marks
            run.ob(rule, (x['callee'], x['l']), ok, {'site': '%s:%d' % (f.relfile(), x['l']), 'creator': x['callee'], 'bookkeeping on every path': ok})
            if not ok:
                run.violation(rule, f, '%s without the reserved-name bookkeeping' % x['callee'], 'a path from the recording of the label name to `%s` '
                              'does not pass process_reserved_name (…, TEMP_ITEM_NAME_PREFIX, &module->last_temp_item_num): an item of this kind '
                              'named `.lcN` in the text leaves the counter too low and MIR_load_module later creates a second `.lcN`' % F.src(x)[:50],
                              line=x['l'])
    if n < 6:
        raise F.AnalysisBroken('MIR_scan_string: only %d data item creators found' % n)
    return n


# ---------------------------------------------------------------------------------------------
# RF96: a reader helper shared by prototypes and functions rejects only what both kinds reject
# ---------------------------------------------------------------------------------------------

def rf96(run):
    import re
    rule = 'RF96'
    run.rule(rule, 'binary reader: func_proto_read parses the header of prototypes *and* functions.  An error it raises is either about the '
                   'encoding (its guard tests the token tag) or states a rule that the API constructors of both kinds enforce '
                   '(new_proto_arr / create_proto and new_func_arr); a rule of one kind only (e.g. "a vararg function needs a fixed '
                   'argument") applied in the shared helper rejects headers the writer legitimately produces for the other kind')
    tu = run.tu('mir')
    f = tu.func('func_proto_read')
    run.functions_analysed.add(('mir', f.name))
    from rf_proto import dominating_conditions
    cfg = f.cfg
    callers = {g.name for g in tu.func_list for y in g.walk() if y['k'] == 'CallExpr' and y.get('callee') == 'func_proto_read'}
    if not callers:
        raise F.AnalysisBroken('func_proto_read has no caller')

    def api_guards(names):
        out = []
        for nm in names:
            if nm not in tu.funcs:
                continue
            g = tu.funcs[nm]
            for y in g.walk():
                if y['k'] == 'IfStmt' and any(AI_is_err(z) for z in F.walk(y['c'][1]) if z['k'] == 'CallExpr'):
                    out.append(set(re.findall(r'[A-Za-z_]\w*', F.src(y['c'][0]))))
        return out
    from lib import absint as AI
    AI_is_err = AI.is_error_call
    proto_g = api_guards(['new_proto_arr', 'create_proto', 'MIR_new_proto_arr'])
    func_g = api_guards(['new_func_arr'])
    n = 0
    for x in f.walk():
        if x['k'] != 'CallExpr' or AI.is_error_call(x) is None:
            continue
        conds = [c for c, t in dominating_conditions(cfg, cfg.block_of(x), selective=True)]
        # the innermost if
        guard = None
        cur = x['i']
        while cur is not None:
            p_ = f.parent.get(cur)
            if p_ is None:
                break
            if f.nodes[p_]['k'] == 'IfStmt':
                guard = f.nodes[p_]
                break
            cur = p_
        gtxt = F.src(guard['c'][0]) if guard is not None else ''
        ids = set(re.findall(r'[A-Za-z_]\w*', gtxt))
        encoding = 'tag' in ids or any(i_.startswith('TAG_') for i_ in ids)
        n += 1
        ok = encoding
        why = 'tests the token tag' if encoding else None
        if not ok:
            key = {i_ for i_ in ids if i_ not in ('VARR_MIR_var_tlength', 'proto_vars', 'ctx', 'NULL')}
            in_proto = any(len(key & g_) >= 1 and ('vararg_p' in g_) == ('vararg_p' in key) for g_ in proto_g)
            in_func = any(len(key & g_) >= 1 and ('vararg_p' in g_) == ('vararg_p' in key) for g_ in func_g)
            ok = in_proto and in_func
            why = 'enforced by both constructors' if ok else None
        run.ob(rule, (x['l'],), ok, {'site': '%s:%d' % (f.relfile(), x['l']), 'guard': gtxt[:90], 'why accepted': why})
        if not ok:
            run.violation(rule, f, 'kind-specific rule in the shared header reader', 'func_proto_read (shared by %s) raises an error under `%s`, which '
                          'is neither a test of the encoding nor a rule that the prototype constructor enforces: a prototype the API accepts '
                          'and MIR_write emits (e.g. `p: proto i32, ...`) is rejected by MIR_read' % (', '.join(sorted(callers)), gtxt[:80]), line=x['l'])
    if n < 2:
        raise F.AnalysisBroken('func_proto_read: only %d error exits found' % n)
    return n


# ---------------------------------------------------------------------------------------------
# RF103: string escapes printed by MIR_output_str are self-delimiting in C
# ---------------------------------------------------------------------------------------------

def rf103(run):
    import re
    rule = 'RF103'
    run.rule(rule, 'MIR_output_str prints string operands for the text writer and for mir2c.  Every numeric escape it emits has a fixed '
                   'length in both languages: three octal digits (`\\\\%03o`).  A hexadecimal escape `\\\\xHH` is read as two digits by the MIR '
                   'scanner but takes every following hexadecimal digit in C, so "\\\\x01beef" becomes one byte in the translation')
    tu = run.tu('mir')
    f = tu.func('MIR_output_str')
    run.functions_analysed.add(('mir', f.name))
    n = 0
    for x in f.walk():
        if x['k'] == 'StringLiteral' and '%' in x['s'] and '\\' in x['s']:
            n += 1
            hexesc = re.search(r'\\x%', x['s']) is not None
            octal_ok = re.search(r'\\%03o', x['s']) is not None
            ok = not hexesc and (octal_ok or not re.search(r'\\%', x['s']))
            run.ob(rule, (x['l'],), ok, {'format': x['s']})
            if not ok:
                run.violation(rule, f, 'escape format %s' % x['s'], 'MIR_output_str prints non-printable bytes with the format "%s": %s' %
                              (x['s'], 'a C hexadecimal escape has no length limit, so a following character in [0-9a-fA-F] is swallowed by '
                               'the C compiler and the string operand of a call in the mir2c translation differs from the MIR string' if hexesc
                               else 'an octal escape shorter than three digits merges with a following digit'), line=x['l'])
    if n == 0:
        raise F.AnalysisBroken('MIR_output_str: numeric escape format not found')
    return n


# ---------------------------------------------------------------------------------------------
# RF106: alias annotations of a memory operand: what the text writer prints is what the scanner reads
# ---------------------------------------------------------------------------------------------

def rf106(run):
    import re
    from lib import printexec as PE
    from lib import regions as R
    rule = 'RF106'
    run.rule(rule, 'MIR_output_op (memory case) and the memory-operand branch of MIR_scan_string are executed abstractly for the four '
                   'combinations of absent / present alias and nonalias names: the suffix the writer prints is cut into the scanner\'s '
                   'tokens and fed to the scanner\'s `if (t.code == TC_COL) …` statement; the alias and nonalias the scanner stores must be '
                   'the ones the writer was given, without a scan error (`::n` is the only spelling of "nonalias only")')
    tu = run.tu('mir')
    f = tu.func('MIR_output_op')
    g = tu.func('MIR_scan_string')
    run.functions_analysed.update({('mir', f.name), ('mir', g.name)})
    sws = R.find_switches(f, lambda c: c.replace(' ', '').endswith('.mode'))
    if not sws:
        raise F.AnalysisBroken('MIR_output_op: switch on the operand mode not found')
    reg = [r for r in R.switch_regions(f, sws[0]) if 'MIR_OP_MEM' in [c[0] for c in r['cases']]]
    if not reg:
        raise F.AnalysisBroken('MIR_output_op: no MIR_OP_MEM case')
    j = R.switch_regions(f, sws[0]).index(reg[0])
    regs = R.switch_regions(f, sws[0])
    stmts = []
    while True:
        stmts += regs[j]['stmts']
        if regs[j]['falls_into'] is None:
            break
        j = regs[j]['falls_into']
    # the scanner's statement
    cands = [x for x in g.walk() if x['k'] == 'IfStmt' and F.src(F.strip(x['c'][0])).replace(' ', '').strip('()') == 't.code==TC_COL'
             and any(y['k'] == 'MemberExpr' and y['n'] == 'nonalias' for y in F.walk(x))]
    if not cands:
        raise F.AnalysisBroken('MIR_scan_string: the statement that reads the alias names was not found')
    rd = max(cands, key=lambda x: sum(1 for _ in F.walk(x)))
    modes = dict(tu.enum_by_member('MIR_OP_MEM')[1])
    tcs = dict(tu.enum_by_member('TC_COL')[1])
    ty = dict(tu.enum('MIR_type_t'))

    def written(alias, nonalias):
        env = {'op.mode': modes['MIR_OP_MEM'], 'op.u.mem.disp': 0, 'op.u.mem.base': 1, 'op.u.mem.index': 0, 'op.u.mem.scale': 1,
               'op.u.mem.alias': alias, 'op.u.mem.nonalias': nonalias, 'op.u.mem.type': ty['MIR_T_I64']}
        acc = {'MIR_alias_name': lambda a, e, x: 'A%d' % x.val(a[1], e), 'MIR_type_str': lambda a, e, x: 'i64',
               'MIR_reg_name': lambda a, e, x: 'r'}
        ex = PE.PrintExec(tu, {}, acc, {})
        ex.concrete_ints = True
        ex.exec_unit_calls = True
        for st in stmts:
            r = ex.run(st, env)
            if r in ('break', 'return'):
                break
        return ex.text()
    base = written(0, 0)
    n = 0
    for alias, nonalias in ((0, 0), (3, 0), (0, 4), (3, 4)):
        t = written(alias, nonalias)
        n += 1
        if not t.startswith(base):
            run.ob(rule, (alias, nonalias), False)
            run.violation(rule, f, 'memory operand text', 'the text of a memory operand with alias names (`%s`) does not extend the text without them (`%s`)' % (t, base), line=stmts[0]['l'])
            continue
        suffix = t[len(base):]
        toks = [('TC_COL', None) if m == ':' else ('TC_NAME', m) for m in re.findall(r':|[A-Za-z_][A-Za-z0-9_]*', suffix)]
        if ''.join(':' if k == 'TC_COL' else v for k, v in toks) != suffix:
            raise F.AnalysisBroken('suffix `%s` of a memory operand is not made of `:` and names' % suffix)
        toks.append(('TC_NL', None))
        errors = []
        pos = [0]
        env = {'op.u.mem.alias': 0, 'op.u.mem.nonalias': 0}

        def advance(args, env_, ex_):
            if pos[0] < len(toks) - 1:
                pos[0] += 1
            k_, v_ = toks[pos[0]]
            env_['t.code'] = tcs[k_]
            if v_ is not None:
                env_['t.u.name'] = v_
            else:
                env_.pop('t.u.name', None)
            return 1
        k0, v0 = toks[0]
        env['t.code'] = tcs[k0]
        if v0 is not None:
            env['t.u.name'] = v0
        acc = {'scan_token': advance, 'scan_error': lambda a, e, x: errors.append(F.src(a[1])) or 1,
               'MIR_alias': lambda a, e, x: (int(str(x.val(a[1], e))[1:]) if isinstance(x.val(a[1], e), str) else None)}
        ex = PE.PrintExec(tu, {}, acc, {})
        ex.run(rd, env)
        got = (env.get('op.u.mem.alias'), env.get('op.u.mem.nonalias'))
        ok = not errors and got == (alias, nonalias) and toks[pos[0]][0] == 'TC_NL'
        run.ob(rule, (alias, nonalias), ok, {'alias, nonalias': (alias, nonalias), 'printed suffix': suffix, 'scanned as': got, 'scan errors': errors})
        if not ok:
            run.violation(rule, f, 'alias suffix `%s`' % suffix, 'a memory operand with alias=%s nonalias=%s is printed with the suffix `%s`, which the '
                          'scanner reads as alias=%s nonalias=%s%s: the module read back gives the optimiser different aliasing facts (a store '
                          'and a load that may alias are treated as disjoint)' %
                          ('a' if alias else '-', 'n' if nonalias else '-', suffix, got[0], got[1], ' with error %s' % errors[0] if errors else ''),
                          line=stmts[0]['l'])
    return n


# ---------------------------------------------------------------------------------------------
# RF85b: reserved-name bookkeeping in the binary reader
# ---------------------------------------------------------------------------------------------

def rf85b(run):
    rule = 'RF85b'
    run.rule(rule, 'MIR_read_with_func: the name handed to a creator of a named data item (data, bss, ref, lref, expr) was produced by a reader '
                   'that records reserved `.lcN` names in module->last_temp_item_num (forward may-analysis "the variable holds a name that '
                   'skipped the bookkeeping" over the CFG); otherwise loading the module read back creates a second `.lcN` item '
                   '(repeated item declaration), while the module written loads')
    tu = run.tu('mir')
    f = tu.func('MIR_read_with_func')
    run.functions_analysed.add(('mir', f.name))
    cfg = f.cfg

    def tracks(g):
        return any(y['k'] == 'CallExpr' and y.get('callee') == 'process_reserved_name' and 'last_temp_item_num' in F.src(y) for y in g.walk())
    helpers = {g.name for g in tu.func_list if g.name != f.name and g.body is not None and tracks(g)}
    if not helpers and not tracks(f):
        run.ob(rule, ('bookkeeping',), False)
        run.violation(rule, f, 'no reserved-name bookkeeping', 'the binary reader never calls process_reserved_name for the temp-item prefix', line=f.line)
        return 1
    run.functions_analysed.update(('mir', h) for h in helpers)
    creators = ('MIR_new_data', 'MIR_new_string_data', 'MIR_new_bss', 'MIR_new_ref_data', 'MIR_new_lref_data', 'MIR_new_expr_data')
    sites = [x for x in f.walk() if x['k'] == 'CallExpr' and x.get('callee') in creators]
    if len(sites) < 5:
        raise F.AnalysisBroken('MIR_read_with_func: only %d data item creators found' % len(sites))
    vars_ = set()
    for x in sites:
        a = F.strip(F.call_args(x)[1])
        if a['k'] != 'DeclRefExpr':
            raise F.AnalysisBroken('name argument of %s is not a variable' % x['callee'])
        vars_.add(a['n'])
    site_ids = {x['i']: x for x in sites}

    def rhs_state(e):
        cs = [y for y in F.walk(e) if y['k'] == 'CallExpr']
        if any(y.get('callee') in helpers for y in cs):
            # every name-producing call of the right-hand side must be a tracking one
            others = [y for y in cs if y.get('callee') not in helpers and tu.funcs.get(y.get('callee')) is not None
                      and tu.funcs[y['callee']].body is not None and 'char' in str(tu.type(tu.funcs[y['callee']].ret))]
            return bool(others)
        named = [y for y in cs if y.get('callee') not in ('strcmp',)]
        return bool(named)       # a name from somewhere else: not recorded

    def transfer(B, st, report):
        st = dict(st)
        seen = set()
        for e in B.elems:
            for x in reversed(list(cfg.local_walk(e))):
                if x['i'] in seen:
                    continue
                seen.add(x['i'])
                if x['k'] == 'BinaryOperator' and x['op'] == '=' and F.strip(x['c'][0])['k'] == 'DeclRefExpr' and F.strip(x['c'][0])['n'] in vars_:
                    st[F.strip(x['c'][0])['n']] = rhs_state(x['c'][1])
                elif x['k'] == 'CallExpr' and x.get('callee') == 'process_reserved_name' and 'last_temp_item_num' in F.src(x):
                    a0 = F.strip(F.call_args(x)[0])
                    if a0['k'] == 'DeclRefExpr':
                        st[a0['n']] = False
                elif report is not None and x['i'] in site_ids:
                    v = F.strip(F.call_args(x)[1])['n']
                    report[x['i']] = report.get(x['i'], False) or st.get(v, False)
        return st
    inn = {b: {} for b in cfg.blocks}
    changed = True
    while changed:
        changed = False
        for b in cfg.rpo():
            out = transfer(cfg.blocks[b], inn[b], None)
            for s in cfg.live_succs(b):
                for v, d in out.items():
                    if d and not inn[s].get(v, False):
                        inn[s][v] = True
                        changed = True
    rep = {}
    for b in cfg.blocks:
        transfer(cfg.blocks[b], inn[b], rep)
    n = 0
    for i, x in site_ids.items():
        n += 1
        ok = not rep.get(i, False)
        run.ob(rule, (x['callee'], x['l']), ok, {'site': '%s:%d' % (f.relfile(), x['l']), 'creator': x['callee'], 'tracking readers': sorted(helpers)})
        if not ok:
            run.violation(rule, f, '%s with a name that skipped the bookkeeping' % x['callee'], 'the name given to `%s` can come from a reader that does not call '
                          'process_reserved_name (…, &module->last_temp_item_num): an item of this kind named `.lcN` leaves the counter of the module '
                          'read back too low and MIR_load_module later creates a second `.lcN`' % F.src(x)[:50], line=x['l'])
    return n


# ---------------------------------------------------------------------------------------------
# RF115: every opcode the binary writer emits is accepted by the binary reader
# ---------------------------------------------------------------------------------------------

def rf115(run):
    from lib import printexec as PE
    rule = 'RF115'
    run.rule(rule, 'write_insn and the instruction branch of MIR_read_with_func: the tests that end in the error function are evaluated for '
                   'every value of MIR_insn_code_t.  An opcode the writer emits as an instruction code (everything it does not reject; '
                   'labels have tags of their own) is not rejected by the reader')
    tu = run.tu('mir')
    w = tu.func('write_insn')
    r = tu.func('MIR_read_with_func')
    run.functions_analysed.update({('mir', w.name), ('mir', r.name)})
    codes = [(n_, v) for n_, v in tu.enum('MIR_insn_code_t')]
    bound = dict(codes)['MIR_INSN_BOUND']

    def error_tests(f, var_names):
        out = []
        for x in f.walk():
            if x['k'] != 'IfStmt':
                continue
            c = x['c'][0]
            names = {F.src(y) for y in F.walk(c) if y['k'] == 'DeclRefExpr'}
            if not (names & set(var_names)):
                continue
            # only tests on the opcode alone
            if any(y['k'] in ('CallExpr', 'MemberExpr') for y in F.walk(c)):
                continue
            th = x['c'][1]
            if th is not None and any(y['k'] == 'CallExpr' and 'MIR_get_error_func' in F.src(y) for y in F.walk(th)) and \
                    not any(y['k'] in ('ForStmt', 'WhileStmt') for y in F.walk(th)):
                out.append(c)
        return out
    wt = error_tests(w, ('code',))
    rt = error_tests(r, ('insn_code',))
    if not wt or not rt:
        raise F.AnalysisBroken('RF115: opcode tests not found (writer %d, reader %d)' % (len(wt), len(rt)))

    def rejected(tests, var, v):
        for c in tests:
            ex = PE.PrintExec(tu, {}, {}, {})
            val = ex.val(c, {var: v})
            if val is None:
                raise F.AnalysisBroken('RF115: `%s` not evaluable' % F.src(c)[:60])
            if val:
                return True
        return False
    n = 0
    for nm, v in codes:
        if v >= bound or nm in ('MIR_LABEL', 'MIR_INVALID_INSN'):
            continue
        wr = rejected(wt, 'code', v)
        rr = rejected(rt, 'insn_code', v)
        ok = wr or not rr
        n += 1
        run.ob(rule, (nm,), ok, {'opcode': nm, 'writer emits': not wr, 'reader accepts': not rr} if n % 30 == 1 or not ok else None)
        if not ok:
            run.violation(rule, r, 'opcode %s' % nm, 'MIR_write emits the instruction code of %s (%d) but MIR_read rejects it (one of: %s): a module '
                          'using this instruction cannot be read back' % (nm, v, '; '.join(F.src(c)[:50] for c in rt)), line=rt[0]['l'])
    if n < 150:
        raise F.AnalysisBroken('RF115: only %d opcodes compared' % n)
    return n


# ---------------------------------------------------------------------------------------------
# RF116: per-statement state of the scanner is set in every statement before it is read
# ---------------------------------------------------------------------------------------------

def rf116(run):
    rule = 'RF116'
    run.rule(rule, 'MIR_scan_string handles one statement per iteration of its main loop and resets the statement flags at its start.  The '
                   'instruction code used to classify name operands (label operand of a branch / laddr / switch) is assigned on every '
                   'path from that reset to each of its reads; otherwise a `ref` or `expr` statement is classified with the opcode of '
                   'the statement before it (`d: ref f` after a function ending in `jmp L` is rejected)')
    tu = run.tu('mir')
    f = tu.func('MIR_scan_string')
    run.functions_analysed.add(('mir', f.name))
    cfg = f.cfg
    var = 'insn_code'
    reset = [x for x in f.walk() if x['k'] == 'BinaryOperator' and x['op'] == '=' and F.src(F.strip(x['c'][0])) == 'module_p'
             and 'end_module_p' in F.src(x['c'][1])]
    if not reset:
        raise F.AnalysisBroken('MIR_scan_string: the reset of the statement flags was not found')
    rb = cfg.block_of(reset[0])
    defs = [x for x in f.walk() if x['k'] == 'BinaryOperator' and x['op'] == '=' and F.src(F.strip(x['c'][0])) == var]
    def_ids = {id(F.strip(x['c'][0])) for x in defs}
    reads = [x for x in f.walk() if x['k'] == 'DeclRefExpr' and x['n'] == var and id(x) not in def_ids]
    if not reads:
        raise F.AnalysisBroken('MIR_scan_string: no read of insn_code')
    defb = {cfg.block_of(x) for x in defs}
    # a definition in the reset block after the reset covers every path
    B = cfg.blocks[rb]
    order = [e['i'] for e in B.elems]
    after_reset = False
    for x in defs:
        if cfg.block_of(x) == rb:
            ids = {y['i'] for y in F.walk(x)}
            rids = {y['i'] for y in F.walk(reset[0])}
            pos_d = max((k for k, i_ in enumerate(order) if i_ in ids), default=-1)
            pos_r = max((k for k, i_ in enumerate(order) if i_ in rids), default=-1)
            if pos_d > pos_r:
                after_reset = True
    reach = set() if after_reset else cfg.reachable_from(rb, avoid=lambda b: b in defb and b != rb)
    n = 0
    seen_lines = set()
    for x in reads:
        b = cfg.block_of(x)
        if b is None:
            continue
        # a read in a defining block behind the definition is fine
        if b in defb and b != rb:
            continue
        ok = b not in reach or b == rb and False
        if x['l'] in seen_lines:
            continue
        seen_lines.add(x['l'])
        n += 1
        run.ob(rule, (x['l'],), ok, {'read at': '%s:%d' % (f.relfile(), x['l']), 'assigned on every path from the statement start': ok})
        if not ok:
            run.violation(rule, f, 'stale insn_code', '`insn_code` is read at line %d on a path from the start of the statement that does not assign '
                          'it: a data, ref or expr statement is classified with the opcode of the previous instruction (its item name becomes a '
                          'label operand after a branch)' % x['l'], line=x['l'])
    return n


# ---------------------------------------------------------------------------------------------
# RF118: non-finite floating-point values have a spelling the reading side accepts
# ---------------------------------------------------------------------------------------------

def _nonfinite_guarded(f, call, need_cp):
    """the call sits in the else branch of an `if` whose condition holds for every non-finite value (`v != v || v - v != 0`,
    isnan / isinf), for the C variant in conjunction with c_p"""
    import re
    x = call
    while True:
        p_ = f.parent_of(x)
        if p_ is None:
            return False
        if p_['k'] == 'IfStmt' and len(p_['c']) > 2 and p_['c'][2] is not None and any(y is x for y in [p_['c'][2]]):
            cc = F.src(p_['c'][0]).replace(' ', '')
            selfcmp = re.search(r'([A-Za-z_][\w\.\->\[\]]*)!=\1\b', cc) is not None or ('isnan' in cc and 'isinf' in cc) or '!isfinite' in cc
            if selfcmp and '&&' not in cc.replace('c_p&&', '', 1 if need_cp else 0) and (not need_cp or cc.lstrip('(').startswith('c_p&&')):
                return True
        x = p_


def rf118(run, for_c):
    import re
    rule = 'RF118c' if for_c else 'RF118'
    tu = run.tu('mir')
    if for_c:
        run.rule(rule, '_MIR_output_data_item_els with c_p (used by mir2c for data items): every `%e`-family conversion of a float / double / '
                       'long double element is reached only when the value is finite; nan and the infinities are printed as constant '
                       'expressions (`inf` and `nan` are not C)')
        sites = [(tu.func('_MIR_output_data_item_els'), True)]
    else:
        run.rule(rule, 'text writer: printf prints nan and the infinities as `nan` / `inf`, which MIR_scan_string reads as names (`undeclared '
                       'name inf`, `no number after a sign`).  Every `%e`-family conversion in MIR_output_op and _MIR_output_data_item_els '
                       'is reached only for finite values, or the scanner has a spelling for the non-finite ones')
        sites = [(tu.func('MIR_output_op'), False), (tu.func('_MIR_output_data_item_els'), False)]
        sc = [tu.func(nm) for nm in ('scan_number', 'scan_token', 'MIR_scan_string')]
        if any(x['k'] == 'StringLiteral' and x['s'].lower() in ('inf', 'nan', 'inff', 'nanf', 'infl', 'nanl', 'infinity') for g in sc for x in g.walk()):
            run.ob(rule, ('scanner',), True, {'scanner spells non-finite values': True})
            return 1
    n = 0
    for f, need_cp in sites:
        run.functions_analysed.add(('mir', f.name))
        cfg = f.cfg
        bad = []
        for x in f.walk():
            if x['k'] == 'CallExpr' and x.get('callee') == 'fprintf':
                a = F.call_args(x)
                fm = F.strip(a[1]) if len(a) > 1 else None
                if fm is not None and fm['k'] == 'StringLiteral' and re.search(r'%[-+ #0-9.*]*L?[eEgGfF]', fm['s']):
                    n += 1
                    ok = _nonfinite_guarded(f, x, need_cp)
                    run.ob(rule, (f.name, x['l']), ok, {'site': '%s:%d' % (f.relfile(), x['l']), 'format': fm['s'], 'finite values only': ok})
                    if not ok:
                        bad.append(x)
        if bad:
            run.violation(rule, f, 'non-finite values printed with %e', '%s prints floating-point values with %s (lines %s) also when they are nan or '
                          'infinite: the output is `nan` / `inf`, which %s' %
                          (f.name, ', '.join(sorted({F.strip(F.call_args(x)[1])['s'] for x in bad})), ', '.join(str(x['l']) for x in bad),
                           'is not a C constant (the translation does not compile)' if for_c else
                           'MIR_scan_string rejects (undeclared name inf): a module with such an immediate or data element cannot be read back from its text'),
                          line=bad[0]['l'])
    if n < 3:
        raise F.AnalysisBroken('%s: only %d floating-point conversions found' % (rule, n))
    return n


# ---------------------------------------------------------------------------------------------
# RF121: labels created with an explicit number keep the label counter of the context ahead
# ---------------------------------------------------------------------------------------------

def rf121(run):
    rule = 'RF121'
    run.rule(rule, 'labels are identified by their number when a module is written.  MIR_new_label numbers them with ++curr_label_num; every '
                   'other creator (create_label with a number taken from a binary file or from the relabelling counter of the inliner) is '
                   'followed, in the same function or in the function that drives it, by an assignment that brings ctx->curr_label_num '
                   'up to the numbers used.  Otherwise a label created later by MIR_new_label (make_one_ret while loading) repeats a number '
                   'of the function, and after the next MIR_write / MIR_read the two are one label')
    tu = run.tu('mir')
    cg = tu.callgraph()
    callers = {}
    for g, cs in cg.items():
        for c in cs:
            callers.setdefault(c, set()).add(g)

    def sets_counter(g):
        return any(x['k'] in ('BinaryOperator', 'CompoundAssignOperator') and x['op'].endswith('=') and x['op'] not in ('==', '!=', '<=', '>=')
                   and F.src(F.strip(x['c'][0])).replace(' ', '').endswith('->curr_label_num') for x in g.walk()) or \
            any(x['k'] == 'UnaryOperator' and x['op'] in ('++',) and F.src(F.strip(x['c'][0])).replace(' ', '').endswith('->curr_label_num') for x in g.walk())
    n = 0
    for g in tu.func_list:
        if g.body is None or not g.file.startswith('/repo'):
            continue
        sites = [x for x in g.walk() if x['k'] == 'CallExpr' and x.get('callee') == 'create_label']
        if not sites:
            continue
        run.functions_analysed.add(('mir', g.name))
        n += 1
        ok = sets_counter(g)
        via = g.name if ok else None
        if not ok:
            level = {g.name}
            for _ in range(2):
                level = set().union(*[callers.get(h, set()) for h in level]) if level else set()
                hit = [h for h in sorted(level) if h in tu.funcs and tu.funcs[h].body is not None and sets_counter(tu.funcs[h])]
                if hit and all(h in tu.funcs and sets_counter(tu.funcs[h]) for h in level):
                    ok, via = True, hit[0]
                    break
        run.ob(rule, (g.name,), ok, {'creator': g.name, 'counter advanced in': via})
        if not ok:
            run.violation(rule, g, 'label numbers outside the counter', '%s creates labels with explicit numbers (line %d) and neither it nor every '
                          'function that drives it advances ctx->curr_label_num: a label made later by MIR_new_label can repeat one of these '
                          'numbers, and the binary form, which names labels by number, merges the two' % (g.name, sites[0]['l']), line=sites[0]['l'])
    if n < 3:
        raise F.AnalysisBroken('RF121: only %d creators of labels found' % n)
    return n


# ---------------------------------------------------------------------------------------------
# RF129: the mode of a scalar operand survives the binary form
# ---------------------------------------------------------------------------------------------

def rf129(run):
    from lib import printexec as PE
    from lib import regions as R
    rule = 'RF129'
    run.rule(rule, 'write_op, executed abstractly for INT and UINT operands with several values (negative, 0, small, large): the writer '
                   'function chosen does not depend on the value, and the tags that function emits are the ones for which read_operand '
                   'builds an operand of the same mode (write_int / TAG_I* -> MIR_new_int_op, write_uint / TAG_U* -> MIR_new_uint_op).  '
                   'Instructions that demand an INT operand (prset, prbeq, prbne) reject the module read back otherwise')
    tu = run.tu('mir')
    f = tu.func('write_op')
    g = tu.func('read_operand')
    run.functions_analysed.update({('mir', f.name), ('mir', g.name)})
    modes = dict(tu.enum('MIR_op_mode_t'))
    # reader: constructor per tag family
    gsw = [s_ for s_ in R.find_switches(g) if F.src(s_['c'][0]).strip() == 'tag']
    if not gsw:
        raise F.AnalysisBroken('read_operand: switch on the tag not found')
    ctor = {}
    for r in R.switch_regions(g, gsw[0]):
        cs = {y.get('callee') for s_ in r['stmts'] for y in F.walk(s_) if y['k'] == 'CallExpr' and (y.get('callee') or '').startswith('MIR_new_')}
        for cn, lo, hi in r['cases']:
            if cn and cs:
                ctor[cn] = sorted(cs)[0]
    want_ctor = {'write_int': ('TAG_I1', 'MIR_new_int_op'), 'write_uint': ('TAG_U1', 'MIR_new_uint_op')}
    n = 0
    for mode, key, vals, want in (('MIR_OP_INT', 'op.u.i', (-5, 0, 5, 100000), 'write_int'), ('MIR_OP_UINT', 'op.u.u', (0, 5, 100000), 'write_uint')):
        used = {}
        for v in vals:
            log = []
            acc = {nm: (lambda a, e, x, nm=nm: (log.append(nm), 1)[1]) for nm in ('write_int', 'write_uint', 'write_float', 'write_double', 'write_ldouble',
                                                                                  'write_reg', 'write_name', 'write_str', 'write_lab', 'put_byte')}
            ex = PE.PrintExec(tu, {}, acc, {})
            ex.retval = 'none'
            try:
                ex.run(f.body, {'op.mode': modes[mode], key: v})
            except F.AnalysisBroken as e_:
                raise F.AnalysisBroken('write_op (%s, %d): %s' % (mode, v, e_))
            used[v] = tuple(log)
        n += 1
        fam = {u_ for u_ in used.values()}
        ok = fam == {(want,)}
        tag, c_want = want_ctor[want]
        ok = ok and ctor.get(tag) == c_want
        run.ob(rule, (mode,), ok, {'mode': mode, 'writer per value': {str(k): list(v_) for k, v_ in used.items()}, 'reader builds': ctor.get(tag)})
        if not ok:
            odd = [(k, v_) for k, v_ in used.items() if v_ != (want,)]
            run.violation(rule, f, '%s operands' % mode, 'a %s operand is written by %s (value %s) instead of %s: read_operand turns the tags of that '
                          'writer into an operand of another mode, so the module read back differs from the one written (and `prset` / `prbeq` / '
                          '`prbne`, which demand an INT operand, are rejected)' %
                          (mode, '/'.join(odd[0][1]) if odd else '?', odd[0][0] if odd else '?', want), line=f.line)
    return n


# ---------------------------------------------------------------------------------------------
# RF143: the scanner reads back the three-digit octal escapes the writer prints
# ---------------------------------------------------------------------------------------------

def rf143(run):
    from lib import printexec as PE
    rule = 'RF143'
    run.rule(rule, 'scan_string, octal escape branch, executed abstractly on the input `\\\\0123…` and `\\\\012B` (the writer prints every '
                   'non-printable byte as exactly three octal digits, RF103): the escape takes three digits — the value is 012 and the '
                   'fourth character, digit or not, is left in the input.  A reader that takes a fourth digit merges a control byte with a '
                   'following character \'0\'…\'7\'')
    tu = run.tu('mir')
    f = tu.func('scan_string')
    run.functions_analysed.add(('mir', f.name))
    sites = [x for x in f.walk() if x['k'] == 'IfStmt' and ('isdigit' in F.src(x['c'][0]) or '__ctype_b_loc' in F.src(x['c'][0]))
             and "'8'" in F.src(x['c'][0])
             and any(y['k'] == 'BinaryOperator' and y['op'] == '=' and F.src(F.strip(y['c'][0])) == 'ch_code' for y in F.walk(x['c'][1]))]

    class Exec(PE.PrintExec):
        # glibc's isdigit is a macro over __ctype_b_loc: `((*__ctype_b_loc ())[(int) (c)] & _ISdigit)`
        def val(self, e, env):
            e0 = F.strip(e)
            if e0['k'] == 'BinaryOperator' and e0['op'] == '&' and '__ctype_b_loc' in F.src(e0):
                subs = [y for y in F.walk(e0) if y['k'] == 'ArraySubscriptExpr']
                if subs:
                    v = self.val(subs[0]['c'][1], env)
                    if isinstance(v, int):
                        return int(48 <= v <= 57)
            return super().val(e, env)
    if not sites:
        raise F.AnalysisBroken('scan_string: the octal escape branch was not found')
    site = min(sites, key=lambda x: x['l'])
    n = 0
    for label, rest, left in (('\\0123', [ord('1'), ord('2'), ord('3'), ord('4')], ord('3')), ('\\012B', [ord('1'), ord('2'), ord('B'), ord('"')], ord('B')),
                              ('\\01"', [ord('1'), ord('"'), ord('x')], ord('"'))):
        stream = list(rest)

        def getc(a, e, x):
            return stream.pop(0) if stream else -1

        def ungetc(a, e, x):
            stream.insert(0, x.val(a[1], e))
            return 1
        acc = {'get_char': getc, 'unget_char': ungetc, 'isdigit': lambda a, e, x: int(48 <= (x.val(a[0], e) or 0) <= 57)}
        ex = Exec(tu, {}, acc, {}, max_iter=12)
        env = {'c': ord('0'), 'ch_code': 0, 'get_char': ('func', 'get_char'), 'unget_char': ('func', 'unget_char')}
        try:
            ex.run(site['c'][1], env)
        except F.AnalysisBroken as e_:
            raise F.AnalysisBroken('scan_string: octal escape branch not executable: %s' % e_)
        val = env.get('c')
        want_val = {'\\0123': 0o012, '\\012B': 0o012, '\\01"': 0o01}[label]
        nxt = stream[0] if stream else None
        ok = val == want_val and nxt == left
        n += 1
        run.ob(rule, (label,), ok, {'input': label, 'value read': val, 'expected': want_val, 'next character left': chr(nxt) if nxt else None})
        if not ok:
            run.violation(rule, f, 'octal escape %s' % label, 'for the input `%s` scan_string reads the escape as %s and leaves `%s` as the next '
                          'character (expected value %d and `%s`): the writer prints exactly three octal digits, so a string with a control '
                          'byte in front of a digit 0…7 is read back with other bytes' %
                          (label, val, chr(nxt) if nxt else 'nothing', want_val, chr(left)), line=site['l'])
    return n


# ---------------------------------------------------------------------------------------------
# RF159: integer tokens are converted by the unsigned conversion
# ---------------------------------------------------------------------------------------------

def rf159(run):
    rule = 'RF159'
    run.rule(rule, 'the textual writer prints u64 data, MIR_OP_UINT immediates and pointers as unsigned numbers (conversion `u` / `x` with the '
                   'l / ll length, control), i.e. up to 2^64-1.  The scanner therefore converts integer tokens with strtoul / strtoull, whose '
                   'range covers both those and — by wrap-around — the negative numbers; strtol / strtoll saturate at INT64_MAX.  No '
                   'function reachable from the scanner entry points calls the signed conversions')
    tu = run.tu('mir')
    cg = tu.callgraph()
    reach = tu.reachable(['MIR_scan_string'])
    run.control(rule, 'scanner closure found', 'scan_token' in reach)
    # control: the writer does print unsigned 64-bit conversions
    import re
    wr = 0
    for fn in ('MIR_output_op', '_MIR_output_data_item_els', 'MIR_output_item'):
        g = tu.func(fn)
        if g is None or g.body is None:
            continue
        for x in g.walk():
            if x['k'] == 'StringLiteral' and re.search(r'%l?l[ux]', x.get('s', '')):
                wr += 1
    run.control(rule, 'writer prints unsigned 64-bit numbers', wr >= 2)
    n = us = 0
    for fn in sorted(reach):
        g = tu.func(fn)
        if g is None or g.body is None or not g.file.startswith('/repo'):
            continue
        for x in g.walk():
            if x['k'] == 'CallExpr' and x.get('callee') in ('strtol', 'strtoll', 'atol', 'atoll', 'atoi'):
                n += 1
                run.functions_analysed.add(('mir', g.name))
                run.ob(rule, (g.name, x['l']), False, {'site': '%s:%d' % (g.relfile(), x['l']), 'call': F.src(x)[:60]})
                run.violation(rule, g, 'signed conversion of an integer token', '%s converts a number of the text with `%s`: a u64 data element, an '
                              'unsigned immediate or a pointer of 2^63 or more (printed unsigned by the writer) reads back as INT64_MAX' %
                              (g.name, x.get('callee')), line=x['l'])
            elif x['k'] == 'CallExpr' and x.get('callee') in ('strtoul', 'strtoull'):
                us += 1
                run.functions_analysed.add(('mir', g.name))
    run.control(rule, 'unsigned conversion used by the scanner', us >= 1)
    run.ob(rule, ('scanner',), n == 0, {'functions reachable from MIR_scan_string': len(reach), 'unsigned conversions': us, 'signed conversions': n})
    return 1


# ---------------------------------------------------------------------------------------------
# RF172: the three fields of an lref item are printed independently
# ---------------------------------------------------------------------------------------------

def rf172(run):
    import re
    from lib import printexec as PE
    rule = 'RF172'
    run.rule(rule, 'MIR_output_item, label reference data: the branch is executed abstractly for the four shapes (second label present or not) × '
                   '(displacement zero or not).  The text is `lref L<n>[, L<m>][, <disp>]`: the displacement appears whenever it is non-zero, '
                   'with or without a second label (the scanner takes a number after the first label as the displacement).  Printing it only '
                   'next to a second label drops it from `lref L, 24`')
    tu = run.tu('mir')
    f = tu.func('MIR_output_item')
    run.functions_analysed.add(('mir', f.name))
    kinds = dict(tu.enum_by_member('MIR_lref_data_item')[1])
    sites = [x for x in f.walk() if x['k'] == 'IfStmt' and 'MIR_lref_data_item' in F.src(x['c'][0])]
    if not sites:
        raise F.AnalysisBroken('MIR_output_item: the branch for lref data was not found')
    body = sites[0]['c'][1]
    n = 0
    for lab2 in (0, 1):
        for disp in (0, 24, -8):
            ex = PE.PrintExec(tu, {}, {}, {})
            ex.concrete_ints = True
            env = {'item->item_type': kinds['MIR_lref_data_item'], 'item->u.lref_data': 2, 'lref_data': 2,
                   'lref_data->name': 0, 'item->u.lref_data->name': 0,
                   'lref_data->label': 3, 'lref_data->label->ops[0].u.i': 11, 'lref_data->label->ops[0].mode': 0,
                   'lref_data->label2': 4 if lab2 else 0, 'lref_data->label2->ops[0].u.i': 12, 'lref_data->label2->ops[0].mode': 0,
                   'lref_data->disp': disp}
            try:
                ex.run(body, env)
            except F.AnalysisBroken as e_:
                raise F.AnalysisBroken('MIR_output_item (lref): %s' % e_)
            txt = ' '.join(ex.text().split())
            want = 'lref L11' + (', L12' if lab2 else '') + (', %d' % disp if disp else '')
            ok = txt == want
            n += 1
            run.ob(rule, (lab2, disp), ok, {'second label': bool(lab2), 'disp': disp, 'text': txt, 'expected': want})
            if not ok:
                run.violation(rule, f, 'text of an lref item', 'MIR_output_item prints an lref item with %s second label and displacement %d as `%s`, '
                              'expected `%s`: the module read back refers to another address' % ('a' if lab2 else 'no', disp, txt, want), line=sites[0]['l'])
    return n


# ---------------------------------------------------------------------------------------------
# RF176: the reader's label table is a function number -> label
# ---------------------------------------------------------------------------------------------

def rf176(run):
    from lib import printexec as PE
    rule = 'RF176'
    run.rule(rule, 'binary reader, to_lab: the body is executed abstractly on sequences of label numbers over a model of the table '
                   '(VARR_LENGTH / PUSH / GET / SET / ADDR and memmove / memset on its storage as list operations, create_label returning '
                   'a fresh object).  Within one module the same number always yields the same label and two different numbers never '
                   'yield the same label — in whatever order the numbers arrive (a label created ahead of its use has a number far below '
                   'the first one met).  The layout of the table is free; only the mapping is judged')
    tu = run.tu('mir')
    f = tu.func('to_lab')
    run.functions_analysed.add(('mir', f.name))
    body = f.body
    BASE = 1 << 40
    seqs = [[5, 6, 5, 7, 6], [100, 101, 40, 100, 40, 7, 101, 300, 7, 100], [64, 0, 64, 31, 33, 0, 31], [500, 10, 499, 500, 10, 11, 499]]
    n = 0
    for seq in seqs:
        tab = []
        made = {}
        counter = [0]

        def mk(a, e, x):
            counter[0] += 1
            lab = 7000 + counter[0]
            made[lab] = x.val(a[1], e)
            return lab

        def off(v):
            if not isinstance(v, int) or v < BASE:
                raise F.AnalysisBroken('to_lab: a pointer into the table is not recognised')
            return v - BASE

        def mmove(a, e, x):
            d, s_, nb = off(x.val(a[0], e)), off(x.val(a[1], e)), x.val(a[2], e)
            if not isinstance(nb, int) or nb % 8:
                raise F.AnalysisBroken('to_lab: size of a table move is not recognised')
            k = nb // 8
            while len(tab) < max(d, s_) + k:
                raise F.AnalysisBroken('to_lab: a table move runs past the end of the table')
            chunk = tab[s_:s_ + k]
            tab[d:d + k] = chunk
            return BASE + d

        def mset(a, e, x):
            d, v, nb = off(x.val(a[0], e)), x.val(a[1], e), x.val(a[2], e)
            if v != 0 or not isinstance(nb, int) or nb % 8:
                raise F.AnalysisBroken('to_lab: memset on the table is not recognised')
            for k in range(nb // 8):
                tab[d + k] = 0
            return BASE + d

        def vset(a, e, x):
            i = x.val(a[1], e)
            tab[i] = x.val(a[2], e)
            return 0

        def vpush(a, e, x):
            tab.append(x.val(a[1], e))
            return 0
        acc = {'VARR_MIR_label_tlength': lambda a, e, x: len(tab), 'VARR_MIR_label_tget': lambda a, e, x: tab[x.val(a[1], e)],
               'VARR_MIR_label_taddr': lambda a, e, x: BASE, 'VARR_MIR_label_tlast': lambda a, e, x: tab[-1],
               'VARR_MIR_label_tset': vset, 'VARR_MIR_label_tpush': vpush,
               'create_label': mk, 'memmove': mmove, 'memcpy': mmove, 'memset': mset}
        got = {}
        glob = {'ctx->curr_label_num': 0}
        why = None
        for num in seq:
            ex = PE.PrintExec(tu, {}, acc, {}, max_iter=2000)
            ex.exec_unit_calls = True
            env = dict(glob)
            env['lab_num'] = num
            try:
                r = ex.run(body, env)
            except (IndexError, TypeError) as e_:
                raise F.AnalysisBroken('to_lab: model execution failed for %s: %s' % (seq, e_))
            except F.AnalysisBroken as e_:
                raise F.AnalysisBroken('to_lab (%s): %s' % (seq, e_))
            lab = getattr(ex, 'retval', None)
            if lab is None:
                lab = env.get('lab')
            # context fields written by the body stay for the next call
            for k_, v_ in env.items():
                if k_.startswith('ctx->'):
                    glob[k_] = v_
            if lab in (None, 0):
                why = 'no label is returned for number %d' % num
                break
            if num in got and got[num] != lab:
                why = 'number %d yields two different labels' % num
                break
            other = [k_ for k_, v_ in got.items() if v_ == lab and k_ != num]
            if other:
                why = 'numbers %d and %d yield the same label' % (other[0], num)
                break
            got[num] = lab
        n += 1
        run.ob(rule, (tuple(seq),), why is None, {'label numbers in order of arrival': seq, 'labels created': len(made), 'verdict': why or 'a function, injective'})
        if why:
            run.violation(rule, f, 'label table of the binary reader', 'to_lab, executed on the label numbers %s: %s — branch targets of the '
                          'module read back are attached to the wrong label' % (seq, why), line=f.line)
    return n


# ---------------------------------------------------------------------------------------------
# RF191: floating-point values pass the binary reader and writer in their own type
# ---------------------------------------------------------------------------------------------

def rf191(run):
    rule = 'RF191'
    run.rule(rule, 'binary writer and reader (closures of MIR_write_module_with_func / MIR_read_with_func): no conversion between floating-point '
                   'types is applied to a value on its way (clang cast kind FloatingCast on a non-constant operand).  float → double → float is '
                   'exact for every number but not for every bit pattern: the widening quiets a signalling NaN (0x7fa00001 reads back as '
                   '0x7fe00001), and the text form prints `nan` for both')
    tu = run.tu('mir')
    reach = set(tu.reachable(['MIR_read_with_func', 'MIR_write_module_with_func', 'MIR_write_with_func']))
    run.control(rule, 'reader and writer closures found', 'read_token' in reach or 'get_float' in reach)
    n = tot = 0
    for fn in sorted(reach):
        g = tu.funcs.get(fn)
        if g is None or g.body is None or not g.file.startswith('/repo'):
            continue
        for x in g.walk():
            if x['k'] in F.CASTS and x.get('ck'):
                tot += 1
            if x['k'] in F.CASTS and x.get('ck') == 'FloatingCast':
                o = F.strip(x['c'][0])
                if o['k'] in ('FloatingLiteral', 'IntegerLiteral') or F.const_value(o) is not None:
                    continue
                n += 1
                run.functions_analysed.add(('mir', fn))
                run.ob(rule, (fn, x['l']), False, {'site': '%s:%d %s' % (g.relfile(), x['l'], fn), 'conversion': '%s -> %s' % (tu.type(x['c'][0]).s, tu.type(x).s),
                                                  'operand': F.src(o)[:50]})
                run.violation(rule, g, 'floating-point value converted on its way', '%s converts `%s` from %s to %s (line %d): a float kept in a wider '
                              'field and narrowed again is the same number but not the same bits — a signalling NaN comes back quiet, so '
                              'immediates and data elements are not preserved bit for bit' %
                              (fn, F.src(o)[:40], tu.type(x['c'][0]).s, tu.type(x).s, x['l']), line=x['l'])
    run.control(rule, 'cast kinds available from the extractor', tot >= 100)
    run.ob(rule, ('closures',), n == 0, {'functions': len(reach), 'floating-point conversions of values': n})
    return 1


# ---------------------------------------------------------------------------------------------
# RF192: the hard register printed for a variable is that variable's
# ---------------------------------------------------------------------------------------------

def rf192(run):
    rule = 'RF192'
    run.rule(rule, 'textual writer, output_vars: the `:hardreg` suffix of a `local` / `global` declaration comes from the register found *by the '
                   'variable\'s name* (MIR_reg (ctx, var.name, func)).  Register numbers follow the order of declaration across both '
                   'variable lists (a global created at its first use sits between the locals), so a number computed from the position in '
                   'one list names another variable\'s register and the text no longer scans')
    tu = run.tu('mir')
    f = tu.func('output_vars')
    run.functions_analysed.add(('mir', f.name))
    calls = [x for x in f.walk() if x['k'] == 'CallExpr' and x.get('callee') == 'MIR_reg_hard_reg_name']
    if not calls:
        raise F.AnalysisBroken('output_vars: no call of MIR_reg_hard_reg_name')
    inits = {}
    for x in f.walk():
        if x['k'] == 'DeclStmt':
            for d in x.get('decls', []):
                if d.get('init') is not None:
                    inits[d['n']] = d['init']
        if x['k'] == 'BinaryOperator' and x['op'] == '=' and F.strip(x['c'][0])['k'] == 'DeclRefExpr':
            inits[F.strip(x['c'][0])['n']] = x['c'][1]
    n = 0
    for c in calls:
        a = F.strip(F.call_args(c)[1])
        if a['k'] == 'DeclRefExpr' and a['n'] in inits:
            a = F.strip(inits[a['n']])
        ok = a['k'] == 'CallExpr' and a.get('callee') == 'MIR_reg' and 'name' in F.src(F.call_args(a)[1])
        n += 1
        run.ob(rule, (c['l'],), ok, {'site': '%s:%d' % (f.relfile(), c['l']), 'register looked up as': F.src(a)[:60]})
        if not ok:
            run.violation(rule, f, 'hard register of another variable', 'output_vars takes the hard-register name of `%s` (line %d), not of the register '
                          'found by the variable\'s name: with a global declared between locals the suffix lands on the wrong declaration '
                          '(`local i64:a, i64:b:rdx` / `global i64:g`) and MIR_scan_string rejects the text' % (F.src(a)[:40], c['l']), line=c['l'])
    return n
