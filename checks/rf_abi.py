"""RF10 ABI constant agreement (x86-64 System V): every copy of the calling-convention tables and thresholds in the FFI
trampoline generator, the code generator and the va_arg builtins agrees with the psABI."""
import os, sys
from lib import facts as F
from lib import enumflow as EF
from lib import regions as R
sys.path.insert(0, os.path.join(F.VERIF, 'spec'))
import sysv as ABI


def switch_map(tu, f):
    """{case value: returned expression text} for a function consisting of one switch with returns"""
    m = {}
    dflt = None
    for sw in R.find_switches(f):
        for r in R.switch_regions(f, sw):
            rets = [x for x in R.region_nodes(r['stmts']) if x['k'] == 'ReturnStmt' and F.kids(x)]
            if not rets:
                continue
            val = F.src(F.strip(F.kids(rets[0])[0]))
            for (nm, lo, hi) in r['cases']:
                if lo is not None:
                    for v in range(lo, (hi if hi is not None else lo) + 1):
                        m[v] = val
            if r['default']:
                dflt = val
    return m, dflt


def rf10(run):
    rule = 'RF10'
    run.rule(rule, 'System V AMD64 constants: integer/SSE argument register order and counts in get_int_arg_reg/get_fp_arg_reg and in '
                   '_MIR_get_ff_call, the callee-saved set, the register save area size and layout written by the prologue, the '
                   'thresholds of va_arg_builtin/va_block_arg_builtin and of the va_start lowering all agree with the psABI '
                   '(6 integer + 8 SSE argument registers; save area 8*6 + 16*8 = 176 bytes)')
    gen = run.tu('gen')
    mir = run.tu('mir')
    hreg = None
    for k, vals in gen.enums.items():
        if any(n == 'AX_HARD_REG' for n, v in vals):
            hreg = dict(vals)
    if hreg is None:
        raise F.AnalysisBroken('hard register enum not found')
    hname = {v: n for n, v in hreg.items()}
    # 1. integer argument registers
    f = gen.func('get_int_arg_reg')
    m, d = switch_map(gen, f)
    for i, r in enumerate(ABI.INT_ARG_REGS):
        got = m.get(i)
        ok = got == r + '_HARD_REG'
        run.ob(rule, ('int-arg', i), ok, {'integer argument': i, 'register': got, 'psABI': r})
        if not ok:
            run.violation(rule, f, 'integer argument register %d' % i, 'get_int_arg_reg maps argument %d to %s; the psABI passes it in %s'
                          % (i, got, r), line=f.line)
    ok = len(m) == ABI.NI and d is not None and ('NON' in d or d == '4294967295')
    run.ob(rule, ('int-arg-count',), ok, {'registers': len(m), 'psABI': ABI.NI, 'beyond': d})
    if not ok:
        run.violation(rule, f, 'integer argument register count', 'get_int_arg_reg has %d register cases (psABI: %d) and returns %s beyond them'
                      % (len(m), ABI.NI, d), line=f.line)
    # 2. SSE argument registers
    f = gen.func('get_fp_arg_reg')
    m, d = switch_map(gen, f)
    vals = set(m.values())
    ok = sorted(m) == list(range(ABI.NX)) and len(vals) == 1 and 'XMM0_HARD_REG + fp_arg_num' in next(iter(vals)) and d is not None and ('NON' in d or d == '4294967295')
    run.ob(rule, ('sse-arg',), ok, {'cases': sorted(m), 'value': sorted(vals), 'psABI count': ABI.NX})
    if not ok:
        run.violation(rule, f, 'SSE argument registers', 'get_fp_arg_reg handles cases %s -> %s; the psABI passes the first %d floating '
                      'arguments in xmm0..xmm%d' % (sorted(m), sorted(vals), ABI.NX, ABI.NX - 1), line=f.line)
    # 3. callee-saved set
    preds = EF.Predicates(gen)
    f = gen.func('target_call_used_hard_reg_p')
    fx = gen.func('target_fixed_hard_reg_p') if 'target_fixed_hard_reg_p' in gen.funcs else None
    body = F.kids(f.body)
    ret = [x for x in f.walk() if x['k'] == 'ReturnStmt']
    if len(ret) != 1:
        raise F.AnalysisBroken('target_call_used_hard_reg_p: single return expected')
    saved = set()
    for n, v in hreg.items():
        r = preds.eval(F.kids(ret[0])[0], {f.params[0]['n']: v}, frozenset())
        if r is None:
            raise F.AnalysisBroken('target_call_used_hard_reg_p not evaluable')
        if not r:
            saved.add(n[:-9])
    fixed = set()
    if fx is not None:
        rx = [x for x in fx.walk() if x['k'] == 'ReturnStmt']
        env0 = {g['name']: F.const_value(g['init']) for g in gen.globals if g.get('init') is not None and F.const_value(g['init']) is not None}
        for n, v in hreg.items():
            r = preds.eval(F.kids(rx[0])[0], dict(env0, **{fx.params[0]['n']: v}), frozenset())
            if r:
                fixed.add(n[:-9])
    want = ABI.CALLEE_SAVED - {'BP'}
    ok = saved == want or saved == ABI.CALLEE_SAVED
    run.ob(rule, ('callee-saved',), ok, {'callee-saved per target_call_used_hard_reg_p': sorted(saved), 'psABI': sorted(ABI.CALLEE_SAVED),
                                         'fixed (never allocated)': sorted(fixed)})
    if not ok:
        run.violation(rule, f, 'callee-saved set', 'target_call_used_hard_reg_p treats %s as callee-saved; the psABI set is %s (rbp is fixed)'
                      % (sorted(saved), sorted(ABI.CALLEE_SAVED)), line=f.line)
    if fx is not None:
        ok = {'BP', 'SP'} <= fixed
        run.ob(rule, ('fixed',), ok)
        if not ok:
            run.violation(rule, fx, 'fixed registers', 'rbp/rsp are not fixed registers: %s' % sorted(fixed), line=fx.line)
        # temporaries used by the generator outside register allocation must be call-clobbered
        temps = {g['name']: F.const_value(g['init']) for g in gen.globals if g['name'].startswith('TEMP_') and g.get('init') is not None}
        for tn, tv in sorted(temps.items()):
            if tv is None or tv not in hname:
                continue
            rn = hname[tv][:-9]
            ok = rn not in saved and rn in fixed
            run.ob(rule, ('temp', tn), ok, {'temporary': tn, 'register': rn, 'call-clobbered': rn not in saved, 'fixed': rn in fixed})
            if not ok:
                run.violation(rule, '<file scope>', 'temporary %s' % tn, '%s = %s must be a call-clobbered register that the allocator never '
                              'uses' % (tn, rn), file='mir-x86_64.h', line=1)
    # 4. register save area size
    g = gen.global_var('reg_save_area_size')
    v = F.const_value(g['init'])
    ok = v == ABI.REG_SAVE_AREA
    run.ob(rule, ('save-area-size',), ok, {'reg_save_area_size': v, 'psABI 8*NI + 16*NX': ABI.REG_SAVE_AREA})
    if not ok:
        run.violation(rule, '<file scope>', 'reg_save_area_size', 'reg_save_area_size is %s, the psABI register save area has %d bytes'
                      % (v, ABI.REG_SAVE_AREA), file='mir-gen-x86_64.c', line=g['line'])
    # 5. prologue save layout: isave (…, offset + 8*i, <int arg reg i>), dsave (…, offset + 48 + 16*j, XMMj)
    f = gen.func('target_make_prolog_epilog')
    saves = []
    for x in f.walk():
        if x['k'] == 'CallExpr' and x.get('callee') in ('isave', 'dsave'):
            a = F.call_args(x)
            off = F.strip(a[2])
            k = 0
            if off['k'] == 'BinaryOperator' and off['op'] == '+':
                k = F.const_value(F.strip(off['c'][1]))
            saves.append((x['callee'], k, F.src(F.strip(a[3])), x['l']))
    exp = [('isave', 8 * i, r + '_HARD_REG') for i, r in enumerate(ABI.INT_ARG_REGS)] + \
          [('dsave', ABI.GP_LIMIT + 16 * j, r + '_HARD_REG') for j, r in enumerate(ABI.SSE_ARG_REGS)]
    got = [(c, k, r) for c, k, r, l in saves]
    ok = got == exp
    run.ob(rule, ('save-layout',), ok, {'saved': ['%s@%s' % (r[:-9], k) for c, k, r in got], 'psABI layout': ['%s@%s' % (r[:-9], k) for c, k, r in exp]})
    if not ok:
        bad = [(a, b) for a, b in zip(got, exp) if a != b][:3]
        run.violation(rule, f, 'register save area layout', 'the vararg prologue saves %s; va_arg expects %s' %
                      (bad and bad[0][0], bad and bad[0][1]), line=saves[0][3] if saves else f.line)
    # 5b. every one of those stores is executed whenever the function is variadic: va_list may be handed to another function, so
    #     no property of the function's own body can excuse a missing store
    from rf_proto import dominating_conditions
    cfg = f.cfg
    for x in f.walk():
        if x['k'] == 'CallExpr' and x.get('callee') in ('isave', 'dsave'):
            b = cfg.block_of(x)
            conds = dominating_conditions(cfg, b, selective=True) if b is not None else None
            extra = None if conds is None else [c for c, t in conds if not (c.replace(' ', '').strip('()') in ('func->vararg_p', 'curr_func_item->u.func->vararg_p') and t)]
            # conditions that hold on every path to the save code (early `return` guards) are not selective: keep only tests whose
            # other edge also stays inside the function without passing the variadic test
            sel = []
            for c in (extra or []):
                if 'vararg_p' in c:
                    continue  # e.g. the leaf early exit `… && !func->vararg_p` is false for variadic functions
                sel.append(c)
            ok = conds is not None and not sel
            run.ob(rule, ('save-unconditional', x['l']), ok, {'store': F.src(x)[:60], 'additional conditions': sel})
            if not ok:
                run.violation(rule, f, 'conditional register save %s' % F.src(F.strip(F.call_args(x)[3])),
                              'the store of %s into the register save area is executed only under %s: a variadic function that passes its '
                              'va_list on (or whose va_arg is in a callee) reads a slot that was never written'
                              % (F.src(F.strip(F.call_args(x)[3])), sel), line=x['l'])
    # 6. FFI trampoline tables
    for gname, want in (('iregs', ABI.INT_ARG_HW),):
        gv = mir.global_var(gname, func='_MIR_get_ff_call')
        vals = [F.const_value(c) for c in F.kids(gv['init'])]
        ok = vals == want
        run.ob(rule, ('ff', gname), ok, {'table': gname, 'values': vals, 'psABI hardware numbers': want})
        if not ok:
            run.violation(rule, '_MIR_get_ff_call', 'table %s' % gname, '_MIR_get_ff_call passes integer arguments in hardware registers %s; '
                          'the psABI order is %s (rdi, rsi, rdx, rcx, r8, r9)' % (vals, want), file='mir-x86_64.c', line=gv['line'])
    for gname, want in (('max_iregs', ABI.NI), ('max_xregs', ABI.NX)):
        gv = mir.global_var(gname, func='_MIR_get_ff_call')
        v = F.const_value(gv['init'])
        ok = v == want
        run.ob(rule, ('ff', gname), ok, {'constant': gname, 'value': v, 'psABI': want})
        if not ok:
            run.violation(rule, '_MIR_get_ff_call', 'constant %s' % gname, '%s is %s, the psABI has %d' % (gname, v, want),
                          file='mir-x86_64.c', line=gv['line'])
    # 7. va_arg builtin thresholds
    f = mir.func('va_arg_builtin')
    conds = {}
    for x in f.walk():
        if x['k'] == 'BinaryOperator' and x['op'] in ('<=', '<', '>', '>='):
            l = F.src(F.strip(x['c'][0]))
            v = F.const_value(F.strip(x['c'][1]))
            if v is not None and l.endswith(('gp_offset', 'fp_offset')):
                conds[l.split('->')[-1]] = (x['op'], v)
    steps = {}
    for x in f.walk():
        if x['k'] == 'CompoundAssignOperator' and x['op'] == '+=':
            l = F.src(F.strip(x['c'][0]))
            if l.endswith(('gp_offset', 'fp_offset')):
                steps[l.split('->')[-1]] = F.const_value(F.strip(x['c'][1]))

    def last_ok(op, v, limit, step):
        # the register path is taken iff offset <= limit - step
        return (op == '<=' and v == limit - step) or (op == '<' and v == limit - step + 1)
    for fld, limit, step in (('gp_offset', ABI.GP_LIMIT, 8), ('fp_offset', ABI.FP_LIMIT, 16)):
        c = conds.get(fld)
        ok = c is not None and last_ok(c[0], c[1], limit, step) and steps.get(fld) == step
        run.ob(rule, ('va_arg', fld), ok, {'field': fld, 'register path when': c, 'step': steps.get(fld), 'psABI': 'offset <= %d, step %d' % (limit - step, step)})
        if not ok:
            run.violation(rule, f, 'va_arg threshold on %s' % fld, 'va_arg_builtin takes the register path when %s %s and advances by %s; the '
                          'save area holds %d bytes of such registers in steps of %d' % (fld, c, steps.get(fld), limit if fld == 'gp_offset' else limit - ABI.GP_LIMIT, step),
                          line=f.line)
    # 8. va_start lowering: a named argument is counted as stack-passed only when its class is exhausted
    f = gen.func('target_machinize')
    found = 0
    for x in f.walk():
        if x['k'] != 'CompoundStmt':
            continue
        ks = F.kids(x)
        for a, b in zip(ks, ks[1:]):
            if a['k'] == 'CompoundAssignOperator' and a['op'] == '+=' and F.src(F.strip(a['c'][0])) in ('gp_offset', 'fp_offset') and b['k'] == 'IfStmt':
                var = F.src(F.strip(a['c'][0]))
                step = F.const_value(F.strip(a['c'][1]))
                c = F.strip(b['c'][0])
                if c['k'] != 'BinaryOperator' or not any(y['k'] == 'CompoundAssignOperator' and F.src(F.strip(y['c'][0])) == 'mem_offset' for y in F.walk(b['c'][1])):
                    continue
                found += 1
                tv, op, k = F.src(F.strip(c['c'][0])), c['op'], F.const_value(F.strip(c['c'][1]))
                limit = ABI.GP_LIMIT if var == 'gp_offset' else ABI.FP_LIMIT
                ok = tv == var and ((op == '>' and k == limit) or (op == '>=' and k == limit + step))
                run.ob(rule, ('va_start', var), ok, {'counter': var, 'advanced by': step, 'stack-passed when': '%s %s %s' % (tv, op, k),
                                                    'psABI': '%s > %d after the increment' % (var, limit)})
                if not ok:
                    run.violation(rule, f, 'va_start named-argument accounting for %s' % var,
                                  'after %s += %s the lowering counts the argument as stack-passed when %s %s %s; with %d bytes of such '
                                  'registers in the save area that must be %s > %d' % (var, step, tv, op, k, limit if var == 'gp_offset' else limit - ABI.GP_LIMIT, var, limit),
                                  line=b['l'])
    if found != 2:
        run.analysis_broken(rule, 'va_start lowering: %d of the 2 named-argument counters recognised' % found)
    # 9. va_start initial constants
    inits = {}
    for x in f.walk():
        if x['k'] == 'DeclStmt':
            for d_ in x['decls']:
                if d_['n'] in ('gp_offset', 'fp_offset') and d_.get('init') is not None:
                    inits[d_['n']] = F.const_value(d_['init'])
    ok = inits.get('gp_offset') == 0 and inits.get('fp_offset') == ABI.GP_LIMIT
    run.ob(rule, ('va_start-init',), ok, {'initial gp_offset/fp_offset': inits, 'psABI': {'gp_offset': 0, 'fp_offset': ABI.GP_LIMIT}})
    if not ok:
        run.violation(rule, f, 'va_start initial offsets', 'va_start starts from %s; the save area has the integer registers at 0 and the SSE '
                      'registers at %d' % (inits, ABI.GP_LIMIT), line=f.line)


def rf10c(run):
    """register-class counters in the FFI trampoline generator"""
    from lib import linstate as LS
    rule = 'RF10c'
    run.rule(rule, '_MIR_get_ff_call, block arguments passed in registers: in each class branch (BLK+1 … BLK+4) the k-th integer load uses '
                   'iregs[n_iregs + k], the k-th SSE load uses xmm register n_xregs + k, and afterwards each counter has advanced by '
                   'exactly the number of loads of its class')
    mir = run.tu('mir')
    f = mir.func('_MIR_get_ff_call')
    run.functions_analysed.add(('mir', f.name))
    branches = []
    for n in f.walk():
        if n['k'] == 'IfStmt':
            c = F.src(F.strip(n['c'][0]))
            for k in (1, 2, 3, 4):
                if c.startswith('((type == (MIR_T_BLK + %d))' % k) or c.startswith('((type == MIR_T_BLK + %d)' % k) or \
                        ('type == (MIR_T_BLK + %d)' % k in c and c.index('type == (MIR_T_BLK + %d)' % k) < 4):
                    branches.append((k, n['c'][1], n['l']))
    found = sorted({k for k, b, l in branches})
    if found != [1, 2, 3, 4]:
        raise F.AnalysisBroken('_MIR_get_ff_call: block class branches found: %s' % found)
    for k, body, line in branches:
        for qw in ((1, 2) if k in (1, 2) else (2,)):
            sym = LS.Sym()
            i0, x0 = LS.Lin({'I': 1}), LS.Lin({'X': 1})

            def decide(cond, σ):
                c = F.strip(cond)
                if c['k'] == 'BinaryOperator' and c['op'] == '==':
                    d = sym.ev(c['c'][0], σ).add(sym.ev(c['c'][1], σ), -1)
                    if not d.t:
                        return d.c == 0
                return None
            paths = sym.run(F.kids(body) if body['k'] == 'CompoundStmt' else [body], {'n_iregs': i0, 'n_xregs': x0, 'qwords': LS.Lin(const=qw)}, decide)
            if len(paths) != 1:
                run.analysis_broken(rule, 'BLK+%d branch: %d paths' % (k, len(paths)))
                continue
            σ = paths[0]
            ints, xmms = [], []
            for call, st in sym.calls:
                cal = call.get('callee')
                args = F.call_args(call)
                if cal == 'gen_mov2':
                    a = F.strip(args[2])
                    if a['k'] == 'ArraySubscriptExpr':
                        ints.append(sym.ev(a['c'][1], st).add(i0, -1))
                elif cal == 'gen_movxmm2':
                    xmms.append(sym.ev(args[2], st).add(x0, -1))
            di, dx = σ['n_iregs'].add(i0, -1), σ['n_xregs'].add(x0, -1)
            okseq = [repr(v) for v in ints] == [str(j) for j in range(len(ints))] and [repr(v) for v in xmms] == [str(j) for j in range(len(xmms))]
            okcnt = repr(di) == str(len(ints)) and repr(dx) == str(len(xmms))
            ok = okseq and okcnt
            run.ob(rule, (k, qw), ok, {'class': 'MIR_T_BLK+%d' % k, 'qwords': qw, 'integer loads use n_iregs +': [repr(v) for v in ints],
                                       'SSE loads use n_xregs +': [repr(v) for v in xmms], 'n_iregs advanced by': repr(di), 'n_xregs advanced by': repr(dx)})
            if not ok:
                run.violation(rule, f, 'register counters for MIR_T_BLK+%d (%d qword%s)' % (k, qw, 's' if qw > 1 else ''),
                              'block class BLK+%d: integer loads use registers n_iregs+%s and SSE loads n_xregs+%s, then n_iregs advances '
                              'by %s and n_xregs by %s; each counter must advance by the number of loads of its class and the k-th load must '
                              'use counter+k — otherwise a following argument goes to the wrong register' %
                              (k, [repr(v) for v in ints], [repr(v) for v in xmms], di, dx), line=line)


def rf10b(run):
    """block class -> eightbyte register classes in the generator's argument passing (caller and callee side)"""
    rule = 'RF10b'
    run.rule(rule, 'machinize_call / target_machinize: a block argument of class BLK+1 is moved as integer eightbytes, BLK+2 as SSE '
                   'eightbytes, BLK+3 as (integer, SSE) and BLK+4 as (SSE, integer) — the classification c2mir\'s target_get_blk_type '
                   'produces (first eightbyte floating => BLK+4)')
    gen = run.tu('gen')
    preds = EF.Predicates(gen)
    tv = dict(gen.enum('MIR_type_t'))
    blk = tv['MIR_T_BLK']
    first = {1: 'MIR_T_I64', 2: 'MIR_T_D', 3: 'MIR_T_I64', 4: 'MIR_T_D'}
    second = {1: 'MIR_T_I64', 2: 'MIR_T_D', 3: 'MIR_T_D', 4: 'MIR_T_I64'}
    tname = {v: n for n, v in tv.items()}
    nsites = 0
    for fn in ('machinize_call', 'target_machinize'):
        f = gen.func(fn)
        run.functions_analysed.add(('gen', fn))
        covered = {}
        for n in f.walk():
            if n['k'] != 'DeclStmt':
                continue
            for d in n['decls']:
                if not (d['n'].startswith('mov_type') and d.get('init') is not None and gen.types[d['t']].enum == 'MIR_type_t'):
                    continue
                roles = {'mov_type': ('first', 'second'), 'mov_type1': ('first',), 'mov_type2': ('second',)}.get(d['n'])
                if roles is None:
                    continue
                for k in (1, 2, 3, 4):
                    # is class k admitted by the enclosing conditions?
                    admitted = True
                    child = n
                    for a_ in f.ancestors(n):
                        if a_['k'] == 'IfStmt' and a_['c'][1] is not None and any(x is n for x in F.walk(a_['c'][1])):
                            c = preds.eval(a_['c'][0], {'type': blk + k}, frozenset())
                            if c is not None and not c:
                                admitted = False
                    if not admitted:
                        continue
                    v = preds.eval(d['init'], {'type': blk + k}, frozenset())
                    got = tname.get(v)
                    for role in roles:
                        exp = (first if role == 'first' else second)[k]
                        if d['n'] == 'mov_type' and k in (3, 4):
                            continue
                        ok = got == exp
                        nsites += 1
                        covered.setdefault(k, set()).add(role)
                        run.ob(rule, (fn, d['n'], k, role), ok, {'function': fn, 'class': 'MIR_T_BLK+%d' % k, 'eightbyte': role, d['n']: got, 'expected': exp})
                        if not ok:
                            run.violation(rule, f, '%s for MIR_T_BLK+%d' % (d['n'], k), '%s moves the %s eightbyte of a BLK+%d argument as %s; '
                                          'the class means %s' % (fn, role, k, got, exp), line=n['l'])
        missing = [k for k in (1, 2, 3, 4) if 'first' not in covered.get(k, ())]
        if missing:
            run.analysis_broken(rule, '%s: no eightbyte class found for block classes %s' % (fn, missing))
    # producer: first eightbyte floating => BLK+4
    c2 = run.tu('c2mir')
    fs = [g for g in c2.func_list if any(x['k'] == 'ReturnStmt' and 'MIR_T_BLK + 4' in F.src(x) for x in g.walk())]
    for g in fs:
        rets = [x for x in g.walk() if x['k'] == 'IfStmt' and x['c'][1] is not None and any(y['k'] == 'ReturnStmt' and F.src(y).endswith('(MIR_T_BLK + 4)') for y in F.walk(x['c'][1]))]
        for r in rets:
            c = F.src(F.strip(r['c'][0]))
            ok = 'qword_types[0]' in c and 'MIR_T_F' in c and 'MIR_T_D' in c
            nsites += 1
            run.ob(rule, ('producer', g.name), ok, {'function': g.name, 'BLK+4 returned when': c})
            if not ok:
                run.violation(rule, g, 'BLK+4 classification', '%s returns BLK+4 under [%s]; BLK+4 must mean that the first eightbyte is '
                              'floating-point' % (g.name, c), line=r['l'])
    return nsites



def rf10d(run):
    """argument-register counters are consumed only by arguments that are actually passed in registers"""
    from lib import linstate as LS
    rule = 'RF10d'
    run.rule(rule, 'machinize_call: on every path on which a block argument falls through to the stack-passing code, the integer and SSE '
                   'argument-register counters are what they were before the block was looked at (the psABI gives the remaining registers '
                   'to later arguments)')
    gen = run.tu('gen')
    f = gen.func('machinize_call')
    run.functions_analysed.add(('gen', f.name))
    found = 0
    for comp in [x for x in f.walk() if x['k'] == 'CompoundStmt']:
        ks = F.kids(comp)
        start = end = None
        for i, s_ in enumerate(ks):
            if s_['k'] == 'IfStmt' and 'MIR_T_BLK + 1' in F.src(s_['c'][0]).replace('(MIR_T_BLK + 1)', 'MIR_T_BLK + 1') and start is None:
                start = i
            if s_['k'] == 'IfStmt' and F.src(F.strip(s_['c'][0])) == 'MIR_blk_type_p(type)' and start is not None and i > start:
                end = i
                break
        if start is None or end is None:
            continue
        found += 1
        sym = LS.Sym()
        i0, x0 = LS.Lin({'I': 1}), LS.Lin({'X': 1})
        paths = sym.run(ks[start:end], {'int_arg_num': i0, 'fp_arg_num': x0})
        n_fall = 0
        for σ in paths:
            if '__done__' in σ:
                continue
            n_fall += 1
            ok = σ['int_arg_num'].key() == i0.key() and σ['fp_arg_num'].key() == x0.key()
            run.ob(rule, ('fallthrough', n_fall), ok, {'path': 'block argument not passed in registers', 'int_arg_num': repr(σ['int_arg_num']),
                                                      'fp_arg_num': repr(σ['fp_arg_num'])})
            if not ok:
                run.violation(rule, f, 'register counters on the stack-passing path',
                              'a path reaches the stack-passing code for a block argument with int_arg_num = [%s], fp_arg_num = [%s] '
                              '(initially [I], [X]): registers consumed by a block that is then passed on the stack are lost for the '
                              'following arguments' % (σ['int_arg_num'], σ['fp_arg_num']), line=ks[start]['l'])
                break
        if n_fall == 0:
            run.analysis_broken(rule, 'machinize_call: no fall-through path from the register-passing attempt found')
    if found != 1:
        run.analysis_broken(rule, 'machinize_call: block register-passing region found %d times' % found)


# ---------------------------------------------------------------------------------------------
# RF10e: long double stack slots are 16-byte aligned (psABI 3.2.3: "arguments are pushed ... aligned to their natural
# alignment", long double has alignment 16)
# ---------------------------------------------------------------------------------------------

LD_STACK_SITES = [
    # (unit, function, stack-offset lvalue as the code spells it, role) -- confirmed by reading; each is the running offset of the
    # memory-argument area on the caller (outgoing) or callee (incoming / va_list) side
    ('mir', '_MIR_get_ff_call', 'sp_offset', 'FFI trampoline: outgoing stack arguments'),
    ('mir', 'va_arg_builtin', 'va->overflow_arg_area', 'va_arg: next stack argument'),
    ('gen', 'machinize_call', 'arg_stack_size', 'generated call: outgoing stack arguments'),
    ('gen', 'target_machinize', 'mem_size', 'generated prologue: incoming stack arguments'),
    ('gen', 'target_machinize', 'mem_offset', 'va_start: first anonymous stack argument'),
]


def _mentions(n, key):
    for x in F.walk(n):
        if x['k'] in ('DeclRefExpr', 'MemberExpr') and F.src(x) == key:
            return True
    return False


def _aligned16(l):
    if l.c % 16 != 0:
        return False
    for a, v in l.t.items():
        if not (a.startswith('ru(') and a.endswith(',16)')):
            return False
    return True


def rf10e(run):
    from lib import linstate as LS
    rule = 'RF10e'
    run.rule(rule, 'x86-64 SysV: wherever a running stack-argument offset is advanced for a long double (MIR_T_LD) argument, on the '
                   'MIR_T_LD path the offset has been rounded up to a multiple of 16 before it is read (slot address) and before it is '
                   'advanced; checked by path-wise evaluation of the enclosing statement list with exact linear forms and opaque '
                   'round-up atoms, at every site of the frozen site table (caller side, callee side, va_start, va_arg)')
    nsites = 0
    for unit, fn, key, role in LD_STACK_SITES:
        tu = run.tu(unit)
        f = tu.func(fn)
        run.functions_analysed.add((unit, fn))
        # LD-specific writes of the offset
        cfg = f.cfg
        writes = []
        for x in f.walk():
            if x['k'] in ('BinaryOperator', 'CompoundAssignOperator') and x['op'] in ('=', '+=') and F.src(F.strip(x['c'][0])) == key:
                ldrhs = 'MIR_T_LD' in F.src(x['c'][1])
                b = cfg.block_of(x)
                from rf_proto import dominating_conditions
                ldcond = b is not None and any('== MIR_T_LD' in c and t for c, t in dominating_conditions(cfg, b))
                if ldrhs or ldcond:
                    writes.append(x)
        if not writes:
            raise F.AnalysisBroken('%s: no long-double specific advance of %s found' % (fn, key))
        regions = []
        for w in writes:
            comp = None
            for a in f.ancestors(w):
                if a['k'] == 'CompoundStmt':
                    comp = a
                    break
            if comp is None:
                raise F.AnalysisBroken('%s: advance of %s is not inside a compound statement' % (fn, key))
            if not any(comp is r for r in regions):
                regions.append(comp)
        for comp in regions:
            nsites += 1
            sym = LS.Sym()
            lv = [x for x in F.walk(comp) if x['k'] in ('DeclRefExpr', 'MemberExpr') and F.src(x) == key][0]
            t = tu.type(lv['t'])
            if t.kind == 'ptr':
                sym.scale[key] = 8 if 'uint64_t' in t.s or 'int64_t' in t.s else None
                if sym.scale[key] is None:
                    raise F.AnalysisBroken('%s: %s has pointer type %s' % (fn, key, t.s))
            elif '->' in key or '.' in key:
                sym.scale[key] = 1

            def decide(c, σ):
                s_ = F.src(F.strip(c))
                if 'MIR_T_LD' in s_ and '||' not in s_ and '&&' not in s_:
                    if '== MIR_T_LD' in s_:
                        return True
                    if '!= MIR_T_LD' in s_:
                        return False
                return None
            sym.decide = decide
            states = [{key: LS.Lin({'OFF': 1})}]
            bad = None
            unknown = None
            for st in F.kids(comp):
                if not _mentions(st, key):
                    nxt = []
                    for σ in states:
                        nxt += sym.step(st, dict(σ), decide)
                    states = [σ for σ in nxt if '__done__' not in σ] or nxt
                    continue
                nxt = []
                for σ in states:
                    pre = σ[key]
                    outs = sym.step(st, dict(σ), decide)
                    for o in outs:
                        post = o[key]
                        if any('#' in a for a in list(pre.t) + list(post.t)):
                            unknown = st
                        sx = F.strip(st)
                        pure_write = False
                        tgt = sx
                        while tgt['k'] == 'IfStmt' and tgt['c'][2] is None:
                            tgt = F.strip(tgt['c'][1])
                            if tgt['k'] == 'CompoundStmt' and len(F.kids(tgt)) == 1:
                                tgt = F.strip(F.kids(tgt)[0])
                        if tgt['k'] in ('BinaryOperator', 'CompoundAssignOperator') and tgt['op'] in ('=', '+=') \
                                and F.src(F.strip(tgt['c'][0])) == key and not any(y['k'] == 'CallExpr' for y in F.walk(tgt)):
                            pure_write = True
                        if not _aligned16(pre) and not (pure_write and _aligned16(post)) and bad is None:
                            bad = (st, pre, post)
                    nxt += outs
                states = nxt
                if len(states) > 32:
                    raise F.AnalysisBroken('%s: too many paths around %s' % (fn, key))
            if unknown is not None and bad is not None:
                raise F.AnalysisBroken('%s:%d: the value of %s passes through a construct the evaluator cannot follow (%s)'
                                       % (fn, unknown['l'], key, F.src(unknown)[:80]))
            ok = bad is None
            run.ob(rule, (fn, key, comp['l']), ok, {'function': fn, 'offset': key, 'role': role, 'statement list at line': comp['l'],
                                                   'on the MIR_T_LD path': 'rounded up to 16 before every read and advance' if ok else
                                                   'read or advanced as [%s]' % (bad[1],)})
            if not ok:
                run.violation(rule, f, 'long double slot at %s' % key,
                              '%s (%s): on the MIR_T_LD path `%s` uses %s = [%s] where OFF is the offset after the previous argument; '
                              'it is not rounded up to a multiple of 16, so a long double that follows an odd number of 8-byte stack '
                              'arguments is placed/read at a misaligned slot and exchanged wrongly with native code'
                              % (fn, role, F.src(bad[0])[:90], key, bad[1]), line=bad[0]['l'])
    run.min_instances(rule, 5)


# ---------------------------------------------------------------------------------------------
# RF10f: va_start accounting of the named parameters; RF10g: the interpreter shim's block-argument fetch
# ---------------------------------------------------------------------------------------------

def _ru8(n):
    return (n + 7) // 8 * 8


def rf10f(run):
    import rf_callmode as CM
    rule = 'RF10f'
    run.rule(rule, 'VA_START lowering (target_machinize): for every class of named parameter (integer, SSE, long double, memory-class '
                   'block, BLK+1..BLK+4 of 8/12/16 bytes, RBLK) and every state of (gp_offset, fp_offset) the bookkeeping advances '
                   'gp_offset / fp_offset / the overflow offset exactly as the parameter is taken by the prologue: registers if the '
                   'whole block fits in the remaining registers of its class(es), otherwise the stack (rounded to 8; long double to 16)')
    gen = run.tu('gen')
    f = gen.func('target_machinize')
    run.functions_analysed.add(('gen', f.name))
    chain = None
    for x in f.walk():
        if x['k'] == 'ForStmt' and 'nargs' in F.src(x['c'][1] if x['c'][1] is not None else x):
            body = x['c'][3]
            for st in F.kids(body):
                if st['k'] == 'IfStmt' and 'var.type' in F.src(st['c'][0]) and any(
                        y['k'] == 'CompoundAssignOperator' and F.src(F.strip(y['c'][0])) in ('gp_offset', 'fp_offset') for y in F.walk(st)):
                    chain = st
    if chain is None:
        raise F.AnalysisBroken('target_machinize: the named-parameter accounting of VA_START was not found')
    ev = CM.TextEnv(gen)
    tys = dict(gen.enum('MIR_type_t'))
    BLK = tys['MIR_T_BLK']
    classes = [('MIR_T_I64', tys['MIR_T_I64'], [0]), ('MIR_T_U8', tys['MIR_T_U8'], [0]), ('MIR_T_P', tys['MIR_T_P'], [0]), ('MIR_T_RBLK', tys['MIR_T_RBLK'], [24]),
               ('MIR_T_F', tys['MIR_T_F'], [0]), ('MIR_T_D', tys['MIR_T_D'], [0]), ('MIR_T_LD', tys['MIR_T_LD'], [0]),
               ('MIR_T_BLK', BLK, [8, 20, 32]), ('MIR_T_BLK+1', BLK + 1, [8, 12, 16]), ('MIR_T_BLK+2', BLK + 2, [8, 16]),
               ('MIR_T_BLK+3', BLK + 3, [16]), ('MIR_T_BLK+4', BLK + 4, [16])]
    n = 0
    first = None
    for cn, tv, sizes in classes:
        for size in sizes:
            for gp in range(0, 64, 8):
                for fp in range(48, 200, 16):
                    for mem in (0, 8):
                        env = {'var.type': tv, 'var.size': size, 'gp_offset': gp, 'fp_offset': fp, 'mem_offset': mem}
                        re_ = CM.RetEval(ev)
                        re_.run(chain, env)
                        got = (env.get('gp_offset'), env.get('fp_offset'), env.get('mem_offset'))
                        q = _ru8(size) // 8
                        egp, efp, em = gp, fp, mem
                        if cn in ('MIR_T_I64', 'MIR_T_U8', 'MIR_T_P', 'MIR_T_RBLK'):
                            egp += 8
                            if egp > 48:
                                em += 8
                        elif cn in ('MIR_T_F', 'MIR_T_D'):
                            efp += 16
                            if efp > 176:
                                em += 8
                        elif cn == 'MIR_T_LD':
                            em = (em + 15) // 16 * 16 + 16
                        elif cn == 'MIR_T_BLK':
                            em += 8 * q
                        elif cn == 'MIR_T_BLK+1':
                            if gp + 8 * q <= 48:
                                egp += 8 * q
                            else:
                                em += 8 * q
                        elif cn == 'MIR_T_BLK+2':
                            if fp + 16 * q <= 176:
                                efp += 16 * q
                            else:
                                em += 8 * q
                        else:
                            if gp + 8 <= 48 and fp + 16 <= 176:
                                egp, efp = egp + 8, efp + 16
                            else:
                                em += 8 * q
                        exp = (egp, efp, em)
                        ok = got == exp
                        n += 1
                        if not ok and first is None:
                            first = (cn, size, gp, fp, mem, got, exp)
                        if n % 37 == 0 or not ok:
                            run.ob(rule, (cn, size, gp, fp, mem), ok, {'parameter': cn, 'size': size, 'before (gp, fp, overflow)': (gp, fp, mem),
                                                                      'after': got, 'psABI': exp})
                        else:
                            run.ob(rule, (cn, size, gp, fp, mem), ok)
    if first:
        cn, size, gp, fp, mem, got, exp = first
        if None in got:
            raise F.AnalysisBroken('target_machinize: VA_START accounting not evaluable for %s' % cn)
        run.violation(rule, f, 'VA_START accounting of a named %s parameter' % cn,
                      'with gp_offset=%d fp_offset=%d overflow=%d a named %s parameter%s moves the bookkeeping to %s; the prologue takes it so '
                      'that it should be %s: the first va_arg then reads a named parameter or skips an anonymous one'
                      % (gp, fp, mem, cn, ' of %d bytes' % size if size else '', got, exp), line=chain['l'])
    run.min_instances(rule, 1000)


def rf10g(run):
    import rf_callmode as CM
    rule = 'RF10g'
    run.rule(rule, 'va_block_arg_builtin (fetch of a block argument from a va_list in the interpreter shim): for every class 1..4, '
                   'size 8/16 and every (gp_offset, fp_offset): the block is taken from the register save area exactly when all its '
                   'eightbytes fit in the remaining registers of their classes, gp_offset advances by 8 and fp_offset by 16 per '
                   'eightbyte; otherwise nothing but the overflow area pointer moves')
    mir = run.tu('mir')
    f = mir.func('va_block_arg_builtin')
    run.functions_analysed.add(('mir', f.name))
    ev = CM.TextEnv(mir)
    n = 0
    first = None
    body = F.kids(f.body)
    for ncase in (1, 2, 3, 4):
        for s in ((8, 16) if ncase in (1, 2) else (16,)):
            for gp in range(0, 56, 8):
                for fp in range(48, 192, 16):
                    env = {'ncase': ncase, 's': s, 'va->gp_offset': gp, 'va->fp_offset': fp, 'res': 0}
                    w = _Walker(ev)
                    w.run(f.body, env)
                    got = (env.get('va->gp_offset'), env.get('va->fp_offset'), w.overflow_moved)
                    q = s // 8
                    if ncase == 1:
                        regs = gp + 8 * q <= 48
                        exp = (gp + 8 * q, fp, False) if regs else (gp, fp, True)
                    elif ncase == 2:
                        regs = fp + 16 * q <= 176
                        exp = (gp, fp + 16 * q, False) if regs else (gp, fp, True)
                    else:
                        regs = gp + 8 <= 48 and fp + 16 <= 176
                        exp = (gp + 8, fp + 16, False) if regs else (gp, fp, True)
                    ok = got == exp
                    n += 1
                    if not ok or n % 29 == 0:
                        run.ob(rule, (ncase, s, gp, fp), ok, {'class': ncase, 'size': s, 'before (gp, fp)': (gp, fp), 'after (gp, fp, from stack)': got, 'psABI': exp})
                    else:
                        run.ob(rule, (ncase, s, gp, fp), ok)
                    if not ok and first is None:
                        first = (ncase, s, gp, fp, got, exp)
    if first:
        ncase, s, gp, fp, got, exp = first
        if None in got[:2]:
            raise F.AnalysisBroken('va_block_arg_builtin: not evaluable for class %d' % ncase)
        run.violation(rule, f, 'block argument of class %d' % ncase,
                      'for a %d-byte block of class BLK+%d with gp_offset=%d fp_offset=%d va_block_arg_builtin ends with (gp_offset, fp_offset, '
                      'taken from the stack) = %s, the psABI layout gives %s: the parameters after the block are read from the wrong slots'
                      % (s, ncase, gp, fp, got, exp), line=f.line)
    run.min_instances(rule, 200)


class _Walker:
    """statement walker for va_block_arg_builtin: switch on a known value, if/else, compound assignments on env keys; notes
    whether the overflow area pointer is advanced"""

    def __init__(self, ev):
        self.ev = ev
        self.overflow_moved = False

    def run(self, s, env):
        if s is None:
            return 'fall'
        k = s['k']
        if k == 'CompoundStmt':
            for x in F.kids(s):
                r = self.run(x, env)
                if r != 'fall':
                    return r
            return 'fall'
        if k == 'SwitchStmt':
            v = self.ev.eval(s['c'][0], env, frozenset())
            if v is None:
                raise F.AnalysisBroken('switch value not evaluable')
            started, dflt = False, None
            ks = F.kids(s['c'][1])
            seq = []
            for j, st in enumerate(ks):
                x = st
                labels = []
                while x is not None and x['k'] in ('CaseStmt', 'DefaultStmt'):
                    labels.append(x)
                    x = F.kids(x)[0] if F.kids(x) else None
                if not started and any(lb['k'] == 'CaseStmt' and lb.get('lo') is not None and lb['lo'] <= v <= lb.get('hi', lb['lo']) for lb in labels):
                    started = True
                if not started and any(lb['k'] == 'DefaultStmt' for lb in labels) and dflt is None:
                    dflt = j
                if started and x is not None:
                    seq.append(x)
            if not started and dflt is not None:
                for st in ks[dflt:]:
                    x = st
                    while x is not None and x['k'] in ('CaseStmt', 'DefaultStmt'):
                        x = F.kids(x)[0] if F.kids(x) else None
                    if x is not None:
                        seq.append(x)
            for x in seq:
                r = self.run(x, env)
                if r == 'break':
                    return 'fall'
                if r != 'fall':
                    return r
            return 'fall'
        if k == 'IfStmt':
            c = self.ev.eval(s['c'][0], env, frozenset())
            if c is None:
                raise F.AnalysisBroken('condition %s not evaluable' % F.src(s['c'][0])[:60])
            return self.run(s['c'][1] if c else s['c'][2], env) if (c or s['c'][2] is not None) else 'fall'
        if k == 'BreakStmt':
            return 'break'
        if k == 'ReturnStmt':
            return 'return'
        if k == 'DeclStmt':
            for d in s['decls']:
                if d.get('init') is not None:
                    v = self.ev.eval(d['init'], env, frozenset())
                    if v is not None:
                        env[d['n']] = v
            return 'fall'
        if k == 'CompoundAssignOperator' and s['op'] in ('+=', '-='):
            key = F.src(F.strip(s['c'][0]))
            if key.endswith('overflow_arg_area'):
                self.overflow_moved = True
                return 'fall'
            v = self.ev.eval(s['c'][1], env, frozenset())
            if isinstance(env.get(key), int) and v is not None:
                env[key] = env[key] + (v if s['op'] == '+=' else -v)
            else:
                env.pop(key, None)
            return 'fall'
        if k == 'BinaryOperator' and s['op'] == '=':
            key = F.src(F.strip(s['c'][0]))
            v = self.ev.eval(s['c'][1], env, frozenset())
            if v is None:
                env.pop(key, None) if not key.startswith('va->') else None
            else:
                env[key] = v
            return 'fall'
        return 'fall'


def rf10h(run):
    rule = 'RF10h'
    run.rule(rule, 'machinize_call, call of a variadic function: the number moved into %al derives from fp_arg_num, the counter that '
                   'get_arg_reg advances for every argument placed in an xmm register (scalars and the SSE eightbytes of block '
                   'arguments), capped at 8 — not from a counter advanced for scalar float/double arguments only')
    gen = run.tu('gen')
    f = gen.func('machinize_call')
    run.functions_analysed.add(('gen', f.name))
    movs = [x for x in f.walk() if x['k'] == 'CallExpr' and x.get('callee') == 'MIR_new_insn' and len(F.call_args(x)) == 4
            and 'AX_HARD_REG' in F.src(F.call_args(x)[2]) and F.strip(F.call_args(x)[3])['k'] == 'CallExpr'
            and F.strip(F.call_args(x)[3]).get('callee') == 'MIR_new_int_op']
    if len(movs) != 1:
        raise F.AnalysisBroken('machinize_call: the move into AX before a variadic call was found %d times' % len(movs))
    src = F.strip(F.call_args(F.strip(F.call_args(movs[0])[3]))[1])
    txt = F.src(src)
    derived = 'fp_arg_num' in txt
    scalar_only = False
    if src['k'] == 'DeclRefExpr' and not derived:
        defs = [x for x in f.walk() if x['k'] in ('BinaryOperator', 'CompoundAssignOperator', 'UnaryOperator') and x.get('op') in ('=', '+=', '++')
                and F.src(F.strip(x['c'][0])) == src['n']]
        derived = any(x['k'] == 'BinaryOperator' and 'fp_arg_num' in F.src(x['c'][1]) for x in defs)
        if not derived:
            incs = [x for x in defs if x.get('op') in ('+=', '++')]

            def guard_text(x):
                for a in f.ancestors(x):
                    if a['k'] == 'IfStmt':
                        return F.src(a['c'][0])
                return ''
            scalar_only = bool(incs) and all(('MIR_T_F' in guard_text(x) or 'MIR_T_D' in guard_text(x)) for x in incs)
            # a counter of its own that is not advanced inside the block-argument branches (they `continue` before the scalar code)
            if not scalar_only and incs:
                blk_regions = [y for y in f.walk() if y['k'] == 'IfStmt' and 'MIR_T_BLK' in F.src(y['c'][0])]
                in_blk = [x for x in incs if any(any(z is x for z in F.walk(r_['c'][1])) for r_ in blk_regions)]
                scalar_only = not in_blk
            if not scalar_only:
                raise F.AnalysisBroken('machinize_call: the origin of the %%al value (%s) is not classified' % txt)
    ok = derived
    run.ob(rule, ('al',), ok, {'value moved into AX': txt, 'derived from the xmm register counter': derived})
    if not ok:
        run.violation(rule, f, 'vector register count in %al', 'the value moved into %%al (%s) is advanced for scalar float/double arguments '
                      'only: a by-value struct passed in xmm registers is not counted, so a variadic callee may not save the vector '
                      'registers it is about to read' % txt, line=movs[0]['l'])
    run.min_instances(rule, 1)


def rf10i(run):
    rule = 'RF10i'
    run.rule(rule, 'a by-value block argument that goes to the outgoing stack area is placed at the running offset as it is: MIR block '
                   'types carry no alignment (c2mir passes structs with 8-byte granularity, the psABI aligns a struct to 8 unless it has '
                   'a 16-byte aligned member, which MIR cannot express). In the block branches of machinize_call and _MIR_get_ff_call the '
                   'running offset is therefore only advanced (+=), never re-assigned (rounded)')
    n = 0
    for unit, fn, var in (('gen', 'machinize_call', 'arg_stack_size'), ('mir', '_MIR_get_ff_call', 'sp_offset')):
        tu = run.tu(unit)
        f = tu.func(fn)
        run.functions_analysed.add((unit, fn))
        regions = [x for x in f.walk() if x['k'] == 'IfStmt' and F.src(F.strip(x['c'][0])).replace(' ', '') == 'MIR_blk_type_p(type)']
        if not regions:
            raise F.AnalysisBroken('%s: the block-argument branch was not found' % fn)
        for rg in regions:
            adv = [y for y in F.walk(rg['c'][1]) if y['k'] == 'CompoundAssignOperator' and F.src(F.strip(y['c'][0])) == var]
            asg = [y for y in F.walk(rg['c'][1]) if y['k'] == 'BinaryOperator' and y['op'] == '=' and F.src(F.strip(y['c'][0])) == var]
            n += 1
            ok = not asg
            run.ob(rule, (fn, rg['l']), ok, {'function': fn, 'block branch at line': rg['l'], 'advances of %s' % var: len(adv),
                                            're-assignments of %s' % var: [F.src(y)[:60] for y in asg]})
            if not ok:
                run.violation(rule, f, 'offset of a block argument on the stack',
                              '%s re-assigns the running stack offset inside the block-argument branch (%s): a struct of 8-byte aligned '
                              'members whose size happens to be a multiple of 16 is then placed 8 bytes past where a native callee reads it, '
                              'and every later stack argument is shifted' % (fn, F.src(asg[0])[:70]), line=asg[0]['l'])
    if n < 2:
        raise F.AnalysisBroken('block-argument branches found: %d' % n)
    return n


def rf10j(run):
    rule = 'RF10j'
    run.rule(rule, 'machinize_call: an argument narrower than 64 bits is extended into a temporary (ext_insn) and the argument move '
                   'reads that temporary. Where the move is inserted *after* the anchor prev_call_insn, instructions inserted later '
                   'after the same anchor end up in front of it, so the insertion of ext_insn must follow the insertion of the move on '
                   'every path (the extension then precedes the move in the instruction stream)')
    gen = run.tu('gen')
    f = gen.func('machinize_call')
    run.functions_analysed.add(('gen', f.name))
    cfg = f.cfg
    ext_ins = [x for x in f.walk() if x['k'] == 'CallExpr' and x.get('callee') in ('gen_add_insn_after', 'MIR_insert_insn_after')
               and F.src(F.strip(F.call_args(x)[-1])) == 'ext_insn' and 'prev_call_insn' in F.src(F.call_args(x)[-2])]
    if not ext_ins:
        raise F.AnalysisBroken('machinize_call: the insertion of ext_insn after prev_call_insn was not found')
    n = 0
    for e in ext_ins:
        comp = None
        for a in f.ancestors(e):
            if a['k'] == 'CompoundStmt':
                comp = a
                break
        moves = [y for y in F.walk(comp) if y['k'] == 'CallExpr' and y.get('callee') in ('gen_add_insn_after', 'MIR_insert_insn_after')
                 and F.src(F.strip(F.call_args(y)[-1])) == 'new_insn' and 'prev_call_insn' in F.src(F.call_args(y)[-2])]
        if not moves:
            continue  # the move of this arm goes in front of the call insn: order does not matter
        eb = cfg.block_of(e)
        for mv in moves:
            mb = cfg.block_of(mv)
            n += 1
            if mb == eb:
                B = cfg.blocks[eb]
                pe = min(i for i, el in enumerate(B.elems) if any(z is e for z in F.walk(el)))
                pm = min(i for i, el in enumerate(B.elems) if any(z is mv for z in F.walk(el)))
                ok = pm < pe
            else:
                # order inside one iteration of the argument loop: cut the back edges
                idom = cfg.dominators()
                hdrs = {H.id for H in cfg.blocks.values() if any(cfg.dominates(H.id, q, idom) for q in (H.preds or []) if q != H.id)}
                fwd_m = cfg.reachable_from(mb, avoid=lambda q: q in hdrs and q != mb)
                fwd_e = cfg.reachable_from(eb, avoid=lambda q: q in hdrs and q != eb)
                ok = eb in fwd_m and mb not in fwd_e
            run.ob(rule, ('order', mv['l'], e['l']), ok, {'move inserted at line': mv['l'], 'extension inserted at line': e['l'], 'extension inserted later': ok})
            if not ok:
                run.violation(rule, f, 'insertion order of the extension',
                              'ext_insn is inserted after prev_call_insn (line %d) before the argument store that reads its result is '
                              'inserted after the same anchor (line %d): the store ends up in front of the extension and writes the '
                              'outgoing stack slot from a temporary that is not yet defined' % (e['l'], mv['l']), line=e['l'])
    if n < 1:
        raise F.AnalysisBroken('machinize_call: no arm inserts both the move and the extension after prev_call_insn')
    return n


# ---------------------------------------------------------------------------------------------
# RF65: the frame allocated by the prologue keeps the stack pointer 16-byte aligned
# ---------------------------------------------------------------------------------------------

def rf65(run):
    from lib import residues as RS
    rule = 'RF65'
    run.rule(rule, 'x86-64 target_make_prolog_epilog: by residue dataflow modulo 16 over the function, the block of stack slots and saved '
                   'registers subtracted from sp is a multiple of 16 on every path and the service area is 0 or 8 modulo 16 (8 = the return '
                   'address already on the stack): after the prologue sp is 16-byte aligned in every function, which the alloca lowering '
                   '(sub sp, round16(size)) and SSE spills rely on - leaf functions included')
    gen = run.tu('gen')
    f = gen.func('target_make_prolog_epilog')
    run.functions_analysed.add(('gen', f.name))
    g = gen.global_var('reg_save_area_size')
    consts = {'reg_save_area_size': F.const_value(g['init'])}
    rs = RS.Residues(f, 16, consts)
    n = 0
    subs = []
    for x in f.walk():
        if x['k'] == 'CallExpr' and x.get('callee') == 'MIR_new_insn':
            a = F.call_args(x)
            if len(a) >= 5 and F.src(F.strip(a[1])) == 'MIR_SUB' and F.src(F.strip(a[2])) == 'sp_reg_op' and F.src(F.strip(a[3])) == 'sp_reg_op':
                amt = F.strip(a[4])
                if amt['k'] == 'CallExpr' and amt.get('callee') == 'MIR_new_int_op':
                    subs.append((x, F.strip(F.call_args(amt)[1])))
    if not subs:
        raise F.AnalysisBroken('target_make_prolog_epilog: the frame allocation `sub sp, sp, N` was not found')
    for x, amt in subs:
        terms = []
        def flat(e):
            e = F.strip(e)
            if e['k'] == 'BinaryOperator' and e['op'] == '+':
                flat(e['c'][0]); flat(e['c'][1])
            else:
                terms.append(e)
        flat(amt)
        for t in terms:
            r = rs.at(x, t)
            name = F.src(t)
            n += 1
            if 'service' in name:
                ok = r <= frozenset([0, 8])
                want = '0 or 8'
            else:
                ok = r == frozenset([0])
                want = '0'
            run.ob(rule, (x['l'], name), ok, {'site': '%s:%d' % (f.relfile(), x['l']), 'term': name, 'residues mod 16': sorted(r), 'required': want})
            if not ok:
                run.violation(rule, f, 'frame term %s' % name, 'the frame allocation `sub sp, sp, %s` subtracts %s whose value modulo 16 can be %s '
                              '(required: %s): on such a path sp is not 16-byte aligned after the prologue, and memory obtained by alloca '
                              '(sub sp, round16(size)) in that function is misaligned' % (F.src(amt)[:60], name, sorted(r), want), line=x['l'])
    return n


# ---------------------------------------------------------------------------------------------
# RF84: moves out of the result registers are placed directly after the call (reverse result order)
# ---------------------------------------------------------------------------------------------

def rf84(run):
    rule = 'RF84'
    run.rule(rule, 'x86-64 machinize_call: in the loop over the prototype results every move from a result hard register is inserted with the '
                   'call instruction itself as anchor, so the moves end up in reverse result order.  The two x87 results rely on it: the '
                   'move from st1 is `fxch; fstp` and must run while st0 still holds the first result; `fstp` of st0 first leaves st1\'s '
                   'value in st0 and the swap then reads an empty register')
    gen = run.tu('gen')
    f = gen.func('machinize_call')
    run.functions_analysed.add(('gen', f.name))
    loops = [l for l in f.walk() if l['k'] == 'ForStmt' and l['c'][1] is not None and 'nres' in F.src(l['c'][1])]
    n = 0
    for l in loops:
        for x in F.walk(l['c'][3]):
            if x['k'] == 'CallExpr' and x.get('callee') in ('MIR_insert_insn_after', 'gen_add_insn_after'):
                a = F.call_args(x)
                if F.src(F.strip(a[-1])) != 'new_insn':
                    continue
                anchor = F.src(F.strip(a[-2]))
                n += 1
                ok = anchor == 'call_insn'
                run.ob(rule, (x['l'],), ok, {'site': '%s:%d' % (f.relfile(), x['l']), 'anchor of the result move': anchor})
                if not ok:
                    run.violation(rule, f, 'result move anchored at %s' % anchor, 'the move out of a result register is inserted after `%s` instead '
                                  'of directly after the call: the moves then follow the prototype order, and for two long double results '
                                  '(st0, st1) the second one is read after st0 has been popped (NaN / stale value, x87 stack unbalanced)' % anchor,
                                  line=x['l'])
    if n == 0:
        raise F.AnalysisBroken('machinize_call: insertion of the result moves not found')
    # the pattern the order relies on: LDMOV from st1 swaps first
    return n


# ---------------------------------------------------------------------------------------------
# RF111: the interpreter shim fetches a by-value block from registers exactly when the callers put it there
# ---------------------------------------------------------------------------------------------

def rf111(run):
    from lib import printexec as PE
    rule = 'RF111'
    run.rule(rule, 'mir-x86_64.c, va_block_arg_builtin (used by the interpreter shim to fetch by-value block parameters): executed '
                   'abstractly for every passing class (1 integer, 2 SSE, 3 integer+SSE, 4 SSE+integer), block size 8 or 16 and every '
                   'state of the va_list (gp_offset 0…48, fp_offset 48…176).  The block is taken from the register save area exactly when '
                   'the psABI (and every caller: FFI trampoline, generated call sequence, C compilers) passes it in registers — all its '
                   'eightbytes fit into the free registers of their class — and the offsets advance by 8 / 16 per eightbyte taken')
    tu = run.tu('mir')
    f = tu.func('va_block_arg_builtin')
    run.functions_analysed.add(('mir', f.name))
    n = 0
    bad = None
    for ncase in (1, 2, 3, 4):
        for s in (8, 16) if ncase in (1, 2) else (16,):
            for gp in range(0, 49, 8):
                for fp in range(48, 177, 16):
                    env = {'ncase': ncase, 's': s, 'va->gp_offset': gp, 'va->fp_offset': fp, 'res': 0, 'va->overflow_arg_area': 1000}
                    ex = PE.PrintExec(tu, {}, {'memcpy': lambda a, e, x: 1}, {})
                    try:
                        r = ex.run(f.body, env)
                    except F.AnalysisBroken as e_:
                        raise F.AnalysisBroken('va_block_arg_builtin not executable for case %d: %s' % (ncase, e_))
                    in_regs = r == 'return'
                    words = s // 8
                    if ncase == 1:
                        want = gp + 8 * words <= 48
                        dgp, dfp = 8 * words, 0
                    elif ncase == 2:
                        want = fp + 16 * words <= 176
                        dgp, dfp = 0, 16 * words
                    else:
                        want = gp + 8 <= 48 and fp + 16 <= 176
                        dgp, dfp = 8, 16
                    ok = in_regs == want
                    if ok and in_regs:
                        ok = env.get('va->gp_offset') == gp + dgp and env.get('va->fp_offset') == fp + dfp
                    n += 1
                    run.ob(rule, (ncase, s, gp, fp), ok, {'class': ncase, 'size': s, 'gp_offset': gp, 'fp_offset': fp, 'taken from registers': in_regs,
                                                         'psABI': want} if n % 40 == 1 or not ok else None)
                    if not ok and bad is None:
                        bad = (ncase, s, gp, fp, in_regs, want, env.get('va->gp_offset'), env.get('va->fp_offset'))
    if bad is not None:
        ncase, s, gp, fp, in_regs, want, g2, f2 = bad
        run.violation(rule, f, 'block class %d, size %d at gp_offset %d / fp_offset %d' % (ncase, s, gp, fp),
                      'a by-value block of passing class %d and size %d with gp_offset=%d, fp_offset=%d is taken from %s (offsets afterwards %s / %s), '
                      'while every caller passes it %s: a function run by the interpreter reads other bytes than the ones the same function '
                      'compiled by the generator reads' % (ncase, s, gp, fp, 'the register save area' if in_regs else 'the overflow area', g2, f2,
                                                           'in registers' if want else 'wholly on the stack'), line=f.line)
    return n


# ---------------------------------------------------------------------------------------------
# RF126: a call that moves the stack pointer keeps the frame pointer
# ---------------------------------------------------------------------------------------------

def rf126(run):
    rule = 'RF126'
    run.rule(rule, 'x86-64 machinize_call: when outgoing arguments need stack space the call is bracketed by `sub sp, N` / `add sp, N`.  Spill '
                   'slots are addressed from sp when the frame pointer is omitted, so inside the bracket every spilled argument would be '
                   'read N bytes too low.  The call of prohibit_omitting_fp is guarded by no condition other than the ones that guard the '
                   'creation of the sp adjustment (same condition text, or unconditional)')
    tu = run.tu('gen')
    f = tu.func('machinize_call')
    run.functions_analysed.add(('gen', f.name))

    def guards(x):
        out = []
        while True:
            p_ = f.parent_of(x)
            if p_ is None:
                break
            if p_['k'] == 'IfStmt' and p_['c'][0] is not x:
                neg = len(p_['c']) > 2 and p_['c'][2] is not None and any(y is x for y in F.walk(p_['c'][2])) and not any(y is x for y in F.walk(p_['c'][1]))
                out.append(('!' if neg else '') + F.src(F.strip(p_['c'][0])).replace(' ', ''))
            x = p_
        return out
    adj = [x for x in f.walk() if x['k'] == 'CallExpr' and x.get('callee') == 'MIR_new_insn' and len(F.call_args(x)) >= 4
           and 'SP_HARD_REG' in F.src(F.call_args(x)[2]) and F.src(F.strip(F.call_args(x)[1])) in ('MIR_SUB', 'MIR_ADD')]
    pro = [x for x in f.walk() if x['k'] == 'CallExpr' and x.get('callee') == 'prohibit_omitting_fp']
    if not adj:
        raise F.AnalysisBroken('machinize_call: creation of the sp adjustment not found')
    n = 1
    if not pro:
        run.ob(rule, ('machinize_call',), False)
        run.violation(rule, f, 'frame pointer may be omitted around an sp adjustment', 'machinize_call adjusts sp around the call but never calls '
                      'prohibit_omitting_fp', line=adj[0]['l'])
        return n
    ga = set(guards(adj[0]))
    for x in adj[1:]:
        ga &= set(guards(x))
    best = None
    for x in pro:
        extra = [g for g in guards(x) if g not in ga]
        if best is None or len(extra) < len(best[1]):
            best = (x, extra)
    ok = not best[1]
    run.ob(rule, ('machinize_call',), ok, {'guards of the sp adjustment': sorted(ga), 'guards of prohibit_omitting_fp': guards(best[0])})
    if not ok:
        run.violation(rule, f, 'frame pointer may be omitted around an sp adjustment', 'prohibit_omitting_fp is called only under `%s`, a condition that '
                      'does not guard the `sub sp` / `add sp` bracket (guarded by %s): a call that passes a small by-value block on the stack '
                      'moves sp while spill slots are addressed from sp, and the argument registers are loaded from the outgoing argument area' %
                      (' && '.join(best[1]), sorted(ga) or 'nothing'), line=best[0]['l'])
    return n


# ---------------------------------------------------------------------------------------------
# RF127: the prologue stores nothing below the stack pointer
# ---------------------------------------------------------------------------------------------

def rf127(run):
    import itertools
    from lib import printexec as PE
    rule = 'RF127'
    run.rule(rule, 'x86-64 target_make_prolog_epilog: callee-saved registers are saved at `offset(base)` with base = fp or sp.  For every '
                   'assignment of `offset`, evaluated with the frame pointer omitted (base is sp) and every combination of the other '
                   'flags, the value is not negative: memory below sp is not the function\'s — the basic-block wrapper of lazy bb '
                   'generation, signal handlers and (without a red zone) interrupts write there between the prologue and the epilogue')
    tu = run.tu('gen')
    f = tu.func('target_make_prolog_epilog')
    run.functions_analysed.add(('gen', f.name))
    asg = [x for x in f.walk() if x['k'] == 'BinaryOperator' and x['op'] == '=' and F.src(F.strip(x['c'][0])) == 'offset']
    if len(asg) < 2:
        raise F.AnalysisBroken('target_make_prolog_epilog: assignments of the save offset not found')
    # base register expression
    bases = [x for x in f.walk() if x['k'] == 'BinaryOperator' and x['op'] == '=' and F.src(F.strip(x['c'][0])) == 'base_reg']
    n = 0
    for x in asg:
        e = x['c'][1]
        names = sorted({y['n'] for y in F.walk(e) if y['k'] == 'DeclRefExpr' and y.get('dk') in ('local', 'param', 'global', None)
                        and y['n'] not in ('keep_fp_p',) and not y['n'].isupper()})
        flags = [v for v in names if v.endswith('_p')]
        sizes = [v for v in names if v not in flags]
        bad = None
        for combo in itertools.product((0, 1), repeat=len(flags)):
            env = {'keep_fp_p': 0, 'gen_ctx->target_ctx->keep_fp_p': 0}
            env.update({v: 16 * (k + 1) for k, v in enumerate(sizes)})
            env.update(dict(zip(flags, combo)))
            ex = PE.PrintExec(tu, {}, {}, {})
            try:
                v = ex.val(e, env)
            except F.AnalysisBroken:
                v = None
            if v is None:
                raise F.AnalysisBroken('target_make_prolog_epilog: `%s` not evaluable' % F.src(e)[:60])
            if v < 0:
                bad = (dict(zip(flags, combo)), v)
                break
        n += 1
        run.ob(rule, (x['l'],), bad is None, {'site': '%s:%d' % (f.relfile(), x['l']), 'offset': F.src(e)[:80], 'flags enumerated': flags})
        if bad:
            run.violation(rule, f, 'save area below sp', '`offset = %s` is negative (%d) with the frame pointer omitted and %s: callee-saved registers '
                          'are stored below sp, where the basic-block wrapper of lazy bb generation (and any signal handler) writes; the '
                          'epilogue restores garbage into the caller\'s registers' % (F.src(e)[:70], bad[1], bad[0]), line=x['l'])
    return n


# ---------------------------------------------------------------------------------------------
# RF133: a one-class block goes to registers exactly when all of it fits
# ---------------------------------------------------------------------------------------------

def rf133(run):
    from lib import printexec as PE
    rule = 'RF133'
    run.rule(rule, 'x86-64 machinize_call (caller side) and target_machinize (callee prologue): the test "this BLK+1 / BLK+2 block is passed '
                   'wholly in registers" is evaluated abstractly for every number of argument registers already used (0…7 integer, 0…9 SSE) '
                   'and block sizes 8 and 16, with helper functions of the unit executed: it holds exactly when used + eightbytes <= 6 '
                   '(integer) resp. 8 (SSE), the psABI rule that native callers, va_start and the FFI trampoline follow')
    gen = run.tu('gen')
    tv = dict(gen.enum('MIR_type_t'))
    n = 0
    for fn, szvar in (('machinize_call', 'size'), ('target_machinize', 'blk_size')):
        f = gen.func(fn)
        run.functions_analysed.add(('gen', fn))
        ifs = [x for x in f.walk() if x['k'] == 'IfStmt' and 'MIR_T_BLK + 1' in F.src(x['c'][0]) and 'MIR_T_BLK + 2' in F.src(x['c'][0])]
        if not ifs:
            raise F.AnalysisBroken('%s: the all-in-registers test for one-class blocks was not found' % fn)
        cond = ifs[0]['c'][0]
        # the "no register" value the code compares with
        nonvar = None
        for g in (f,) + tuple(gen.funcs[c] for c in gen.callgraph().get(fn, ()) if c in gen.funcs and gen.funcs[c].body is not None):
            for y in g.walk():
                if y['k'] == 'BinaryOperator' and y['op'] in ('!=', '==') and 'MIR_NON_VAR' not in '' and nonvar is None:
                    v = F.const_value(F.strip(y['c'][1]))
                    if v is not None and v > 1000 and 'arg_reg' in F.src(y['c'][0]):
                        nonvar = v
        if nonvar is None:
            nonvar = 0xffffffff
        first = None
        for cls, used_var, limit in ((1, 'int_arg_num', 6), (2, 'fp_arg_num', 8)):
            for used in range(0, limit + 2):
                for size in (8, 16):
                    acc = {'get_int_arg_reg': lambda a, e, x: (100 + x.val(a[0], e)) if x.val(a[0], e) < 6 else nonvar,
                           'get_fp_arg_reg': lambda a, e, x: (200 + x.val(a[0], e)) if x.val(a[0], e) < 8 else nonvar}
                    ex = PE.PrintExec(gen, {}, acc, {})
                    env = {'type': tv['MIR_T_BLK'] + cls, 'int_arg_num': 0, 'fp_arg_num': 0, szvar: size}
                    env[used_var] = used
                    try:
                        v = ex.val(cond, env)
                    except F.AnalysisBroken as e_:
                        raise F.AnalysisBroken('%s: register test not evaluable: %s' % (fn, e_))
                    if v is None:
                        raise F.AnalysisBroken('%s: register test not evaluable for class %d, %d used' % (fn, cls, used))
                    want = used + size // 8 <= limit
                    ok = bool(v) == want
                    n += 1
                    run.ob(rule, (fn, cls, used, size), ok, {'function': fn, 'class': 'BLK+%d' % cls, 'registers used': used, 'size': size,
                                                             'in registers': bool(v), 'psABI': want} if n % 16 == 1 or not ok else None)
                    if not ok and first is None:
                        first = (cls, used, size, bool(v), want)
        if first:
            cls, used, size, got, want = first
            run.violation(rule, f, 'BLK+%d of %d bytes with %d registers used' % (cls, size, used), '%s decides that a BLK+%d block of %d bytes is %s '
                          'with %d %s argument registers already used; every other party (native callers, va_start, the FFI trampoline, the '
                          'interpreter shim) passes it %s: a native caller of a generated function sees other bytes in the block' %
                          (fn, cls, size, 'in registers' if got else 'on the stack', used, 'integer' if cls == 1 else 'SSE',
                           'in registers' if want else 'on the stack'), line=ifs[0]['l'])
    return n


# ---------------------------------------------------------------------------------------------
# RF144: the extension of call result i is chosen from the type of result i
# ---------------------------------------------------------------------------------------------

def rf144(run):
    rule = 'RF144'
    run.rule(rule, 'x86-64 machinize_call, loop over the results of the prototype: the extension applied to result i (a callee need not '
                   'extend a narrow integer in rax / rdx) is get_ext_code of proto->res_types[i], i the loop variable — not a counter of '
                   'integer or SSE registers, which lags behind i when a floating-point result comes first')
    tu = run.tu('gen')
    f = tu.func('machinize_call')
    run.functions_analysed.add(('gen', f.name))
    loops = [l for l in f.walk() if l['k'] == 'ForStmt' and l['c'][1] is not None and 'nres' in F.src(l['c'][1])]
    if not loops:
        raise F.AnalysisBroken('machinize_call: the loop over the results was not found')
    n = 0
    for lp in loops:
        cond = F.strip(lp['c'][1])
        if cond['k'] != 'BinaryOperator':
            continue
        iv = F.src(F.strip(cond['c'][0]))
        for x in F.walk(lp['c'][3]):
            if x['k'] == 'CallExpr' and x.get('callee') == 'get_ext_code':
                a = F.strip(F.call_args(x)[0])
                ok = a['k'] == 'ArraySubscriptExpr' and 'res_types' in F.src(a['c'][0]) and F.src(F.strip(a['c'][1])) == iv
                n += 1
                run.ob(rule, (x['l'],), ok, {'site': '%s:%d' % (f.relfile(), x['l']), 'argument': F.src(a), 'loop variable': iv})
                if not ok:
                    run.violation(rule, f, 'extension of a result chosen from another result', 'the extension of result %s is `%s`: with a prototype '
                                  '(d, i32) the index of the type lags behind the result (the register counter is still 0 for the second result), so '
                                  'the i32 delivered in rax is not sign-extended — or another result\'s extension is applied' % (iv, F.src(x)[:60]), line=x['l'])
    if n == 0:
        raise F.AnalysisBroken('machinize_call: no get_ext_code in the loop over the results')
    return n


# ---------------------------------------------------------------------------------------------
# RF155: the prologue reserves whole eightbytes for a block parameter that arrives in registers
# ---------------------------------------------------------------------------------------------

def rf155(run):
    rule = 'RF155'
    run.rule(rule, 'x86-64 target_machinize: a BLK+1 … BLK+4 parameter that arrives in registers is stored with 8-byte moves at offsets 0 and 8 '
                   'of its block variable.  In each such branch the storage given to the variable covers the size rounded up to whole '
                   'eightbytes (`blk_size`): either an ALLOCA of blk_size, or a slot of a shared area whose running offset advances by '
                   'blk_size.  A slot of the declared size (12 for three ints) lets the second store run into the next block or past the area')
    tu = run.tu('gen')
    f = tu.func('target_machinize')
    run.functions_analysed.add(('gen', f.name))
    branches = []
    for x in f.walk():
        if x['k'] == 'IfStmt' and 'MIR_T_BLK' in F.src(x['c'][0]):
            n_ = x
            while n_ is not None and n_['k'] == 'IfStmt':
                th = n_['c'][1]
                if any(y['k'] == 'CallExpr' and y.get('callee') == '_MIR_new_var_mem_op' and len(F.call_args(y)) > 3
                       and F.src(F.strip(F.call_args(y)[3])).replace(' ', '').startswith('((i+') and F.const_value(F.strip(F.call_args(y)[2])) in (0, 8)
                       for y in F.walk(th)) and 'MIR_T_BLK' in F.src(n_['c'][0]):
                    if th not in [b for b in branches]:
                        branches.append(th)
                n_ = n_['c'][2] if len(n_['c']) > 2 else None
    # dedupe nested hits
    uniq = []
    for b in branches:
        if not any(b is not o and any(y is b for y in F.walk(o)) for o in branches) and b not in uniq:
            uniq.append(b)
    if len(uniq) < 2:
        raise F.AnalysisBroken('target_machinize: branches for blocks passed in registers not found (%d)' % len(uniq))
    n = 0
    for th in uniq:
        how = None
        ok = False
        for y in F.walk(th):
            if y['k'] == 'CallExpr' and y.get('callee') == 'MIR_new_insn' and len(F.call_args(y)) >= 4 and F.src(F.strip(F.call_args(y)[1])) == 'MIR_ALLOCA':
                sz = F.src(F.strip(F.call_args(y)[3])).replace(' ', '')
                how = 'ALLOCA of %s' % sz
                ok = 'blk_size' in sz
        if how is None:
            for y in F.walk(th):
                if y['k'] == 'CompoundAssignOperator' and y['op'] == '+=':
                    e = F.src(F.strip(y['c'][1])).replace(' ', '')
                    how = 'slot of a shared area, offset advanced by %s' % e
                    ok = e == 'blk_size' or ('blk_size' in e and '.size' not in e)
        if how is None:
            raise F.AnalysisBroken('target_machinize: storage of a register-passed block not recognised (line %d)' % th['l'])
        n += 1
        run.ob(rule, (th['l'],), ok, {'branch at': th['l'], 'storage': how})
        if not ok:
            run.violation(rule, f, 'block slot smaller than its eightbytes', 'the block variable of a parameter passed in registers gets %s, but it is filled '
                          'with 8-byte stores at offsets 0 and 8: for a 12-byte struct the second store overlaps the next block (or the saved registers '
                          'behind the area), so a native caller\'s arguments arrive changed' % how, line=th['l'])
    return n


# ---------------------------------------------------------------------------------------------
# RF186: integer results come back in rax, then rdx
# ---------------------------------------------------------------------------------------------

def rf186(run):
    from lib import enumflow as EF
    import re
    rule = 'RF186'
    run.rule(rule, 'x86-64 generator, results of calls (machinize_call) and operands of ret (target_machinize): every expression that *chooses* a '
                   'hard register for an integer-class result from a running count — a conditional or a sum that mentions AX_HARD_REG and a '
                   'non-constant count, in these functions or in a helper they call — is evaluated for the counts 0 and 1 and yields rax, then '
                   'rdx (psABI; the interpreter shim and the FFI trampoline use the same pair).  `AX_HARD_REG + n` names rcx for the second '
                   'result: the hard-register enumeration is ax, cx, dx')
    tu = run.tu('gen')
    from lib import miniexec as ME
    preds = ME.Env(tu)
    regs = dict(tu.enum_by_member('AX_HARD_REG')[1])
    roots = ['machinize_call', 'target_machinize']
    names = set(roots)
    for r in roots:
        g = tu.func(r)
        for x in g.walk():
            cg = tu.funcs.get(x.get('callee')) if x['k'] == 'CallExpr' and x.get('callee') else None
            if cg is not None and cg.body is not None and cg.file.endswith('mir-gen-x86_64.c'):
                names.add(x['callee'])
    n = 0
    for fn in sorted(names):
        g = tu.func(fn)
        cands = []
        for x in g.walk():
            if x['k'] in ('ConditionalOperator', 'BinaryOperator') and (x['k'] != 'BinaryOperator' or x['op'] == '+'):
                if any(y['k'] == 'DeclRefExpr' and y['n'] == 'AX_HARD_REG' for y in F.walk(x)):
                    cands.append(x)
        # maximal candidates only
        ids = [set(y['i'] for y in F.walk(c)) for c in cands]
        top = [c for k, c in enumerate(cands) if not any(c['i'] in ids[j] and j != k for j in range(len(cands)))]
        for c in top:
            counters = set()
            for y in F.walk(c):
                if y['k'] == 'DeclRefExpr' and y.get('dk') in ('local', 'param') and re.search(r'n_?i?regs?|iregs|count|num', y['n']):
                    counters.add(y['n'])
            if not counters:
                continue
            run.functions_analysed.add(('gen', fn))
            got = []
            for k in (0, 1):
                env = {}
                for cn in counters:
                    for form in (cn, '*%s' % cn, '(*%s)' % cn, '%s++' % cn, '(*%s)++' % cn, '*%s++' % cn):
                        env[form] = k
                v = preds.eval(c, env, frozenset())
                got.append(v)
            if any(v is None for v in got):
                raise F.AnalysisBroken('%s: the choice of the result register `%s` is not evaluable' % (fn, F.src(c)[:60]))
            want = [regs['AX_HARD_REG'], regs['DX_HARD_REG']]
            ok = got == want
            inv = {v: k for k, v in regs.items()}
            n += 1
            run.ob(rule, (fn, c['l']), ok, {'site': '%s:%d %s' % (g.relfile(), c['l'], fn), 'expression': F.src(c)[:60],
                                           'result registers for counts 0, 1': [inv.get(v, v) for v in got]})
            if not ok:
                run.violation(rule, g, 'second integer result not in rdx', '%s chooses the register of an integer result with `%s`: for the counts 0 and 1 '
                              'that is %s, the ABI says rax, rdx — a native caller (or the interpreter) reads the second word of a 16-byte '
                              'struct result from rdx' % (fn, F.src(c)[:50], ', '.join(str(inv.get(v, v))[:-9].lower() for v in got)), line=c['l'])
    run.control(rule, 'result-register choices found (call results and ret)', n >= 1)
    return n


# ---------------------------------------------------------------------------------------------
# RF187: the FFI trampoline advances a register counter only when it hands out registers
# ---------------------------------------------------------------------------------------------

def rf187(run):
    import rf_proto
    rule = 'RF187'
    run.rule(rule, 'x86-64 interpreter FFI trampoline (_MIR_get_ff_call): the counters of used integer and vector argument registers change '
                   'only under a test that registers of that class are still available (`n < max`, `n + qwords <= max`).  An argument that '
                   'goes to the stack — a by-value block that does not fit the remaining registers of its class — leaves the counters alone: '
                   'under the psABI only that argument goes to memory, later arguments still use the free registers, and the generator\'s '
                   'call sequence, the prologue, va_start and va_block_arg all follow that rule.  A trampoline that marks the class '
                   'exhausted passes a following int on the stack while every callee reads it from r9')
    tu = run.tu('mir')
    f = tu.func('_MIR_get_ff_call')
    run.functions_analysed.add(('mir', f.name))
    cfg = f.cfg
    counters = ('n_iregs', 'n_xregs')
    n = 0
    for x in f.walk():
        tgt = None
        if x['k'] == 'UnaryOperator' and x['op'] in ('++', '--'):
            tgt = F.src(F.strip(x['c'][0]))
        elif x['k'] in ('BinaryOperator', 'CompoundAssignOperator') and x['op'] in ('=', '+=', '-='):
            tgt = F.src(F.strip(x['c'][0]))
        if tgt not in counters:
            continue
        if x['k'] == 'BinaryOperator' and x['op'] == '=':
            r = F.strip(x['c'][1])
            while r['k'] == 'BinaryOperator' and r['op'] == '=':
                r = F.strip(r['c'][1])
            if F.const_value(r) == 0:
                continue    # the counters start again for the results
        b = cfg.block_of(x)
        conds = rf_proto.dominating_conditions(cfg, b) if b is not None else []
        mx = 'max_' + tgt[2:]
        ok = any(t and tgt in c and (mx in c or '%s <' % tgt in c) for c, t in conds)
        n += 1
        run.ob(rule, (tgt, x['l']), ok, {'site': '%s:%d' % (f.relfile(), x['l']), 'update': F.src(x)[:40]})
        if not ok:
            run.violation(rule, f, 'register counter changed without handing out a register', '`%s` (line %d) changes the counter of %s argument registers '
                          'on a path where no test says that such registers are available: registers that are still free are skipped, and the '
                          'next argument of that class is passed on the stack while the callee — generated code, the interpreter shim or a C '
                          'function — takes it from the register' % (F.src(x)[:40], x['l'], 'integer' if tgt == 'n_iregs' else 'vector'), line=x['l'])
    run.control(rule, 'counter updates of the trampoline found', n >= 8)
    return n
