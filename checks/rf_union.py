"""RF6 tagged-union discipline for MIR_item (item_type -> u.*) and MIR_op_t (mode -> u.*)."""
from lib import facts as F
from lib import enumflow as EF

OP_MEMBER_MODE = {'i': 'MIR_OP_INT', 'u': 'MIR_OP_UINT', 'f': 'MIR_OP_FLOAT', 'd': 'MIR_OP_DOUBLE', 'ld': 'MIR_OP_LDOUBLE'}


def union_specs(tu):
    """for each tagged record: tag field, tag enum, member -> set of tag values for which reading it is meaningful.
    Members that share their storage type (reg/var, mem/var_mem, i/u) are interchangeable bit-wise and form one group."""
    specs = {}
    for rec, tagf, enum, namefn in (
            ('MIR_item', 'item_type', 'MIR_item_type_t', lambda m: 'MIR_%s_item' % (m[:-3] if m.endswith('_id') else m)),
            ('MIR_op_t', 'mode', 'MIR_op_mode_t', lambda m: OP_MEMBER_MODE.get(m, 'MIR_OP_' + m.upper()))):
        r = tu.records.get(rec)
        if r is None:
            continue
        ufield = [fl for fl in r['fields'] if fl['n'] == 'u']
        if not ufield:
            continue
        ut = tu.types[ufield[0]['t']]
        urec = tu.records.get(ut.rec)
        if urec is None or not urec.get('union'):
            continue
        try:
            vals = dict(tu.enum(enum))
        except F.AnalysisBroken:
            continue
        members = {}
        for fl in urec['fields']:
            en = namefn(fl['n'])
            if en in vals:
                members[fl['n']] = {'tags': {vals[en]}, 'type': tu.types[fl['t']]}
        # group members with the same storage type (or integer types of the same width)
        names = list(members)
        for a in names:
            for b in names:
                ta, tb = members[a]['type'], members[b]['type']
                same = ta.c == tb.c or (ta.kind == 'int' and tb.kind == 'int' and ta.w == tb.w)
                if a != b and same:
                    members[a]['tags'] |= members[b]['tags']
        specs[rec] = {'tag': tagf, 'enum': enum, 'members': {m: frozenset(v['tags']) for m, v in members.items()},
                      'names': {v: n for n, v in vals.items()}, 'universe': frozenset(vals.values())}
    return specs


def union_reads(tu, f, specs):
    """MemberExpr nodes X.u.m / X->u.m that are read (not the target of a plain store)"""
    out = []
    for n in f.walk():
        if n['k'] != 'MemberExpr' or n.get('arrow'):
            continue
        inner = n['c'][0]
        if inner['k'] != 'MemberExpr' or inner['n'] != 'u' or inner.get('rec') not in specs:
            continue
        sp = specs[inner['rec']]
        if n['n'] not in sp['members']:
            continue
        # is it a read?  climb through member/subscript selections of the member's own storage
        x = n
        p = f.parent_of(x)
        while p is not None and ((p['k'] == 'MemberExpr' and not p.get('arrow')) or
                                 (p['k'] == 'ArraySubscriptExpr' and p['c'][0] is x)):
            x, p = p, f.parent_of(p)
        is_store = p is not None and p['k'] == 'BinaryOperator' and p['op'] == '=' and p['c'][0] is x
        addr = p is not None and p['k'] == 'UnaryOperator' and p['op'] == '&'
        if is_store or addr:
            continue
        base = inner['c'][0]
        key = F.src(base) + ('->' if inner.get('arrow') else '.') + sp['tag']
        out.append((n, inner['rec'], key))
    return out


def rf6(run, unit, functions=None, level='contradiction', dispatcher_min=3):
    """level: 'contradiction' (S ∩ A = ∅ only) or 'incomplete' (also S ⊄ A when the function dispatches on the tag)"""
    rule = 'RF6'
    run.rule(rule, 'at every read of a union member of MIR_item / MIR_op_t whose tag has been narrowed on the path, the tag value '
                   'set must intersect (contradiction) and, in dispatcher functions, be contained in (incomplete dispatch) the '
                   'set of tags for which that member is active')
    tu = run.tu(unit)
    specs = union_specs(tu)
    if not specs:
        raise F.AnalysisBroken('tagged records MIR_item/MIR_op_t not found in unit %s' % (unit if isinstance(unit, str) else unit.unit))
    preds = EF.Predicates(tu)
    nsites = 0
    for f in tu.func_list:
        if functions is not None and f.name not in functions:
            continue
        reads = union_reads(tu, f, specs)
        if not reads:
            continue
        run.functions_analysed.add((tu.unit, f.name))
        try:
            ef = EF.EnumFlow(tu, f, preds)
        except F.AnalysisBroken as ex:
            run.analysis_broken(rule, str(ex))
            continue
        # how many distinct tag values does the function test per key (dispatcher detection)
        tested = {}
        for B in ef.cfg.blocks.values():
            if B.cond is None:
                continue
            c = F.strip(B.cond)
            if B.tk == 'SwitchStmt':
                kc = ef.key_of(c)
                if kc:
                    tested[kc[0]] = tested.get(kc[0], 0) + 3
            elif c['k'] == 'BinaryOperator' and c['op'] in ('==', '!='):
                for side in c['c']:
                    kc = ef.key_of(side)
                    if kc:
                        tested[kc[0]] = tested.get(kc[0], 0) + 1
        byid = {n['i']: (n, rec, key) for n, rec, key in reads}
        done = set()
        for bid in ef.cfg.blocks:
            for e, st, alias in ef.states_at_elems(bid):
                for x in ef.cfg.local_walk(e):
                    if x['i'] in byid and x['i'] not in done:
                        done.add(x['i'])
                        n, rec, key = byid[x['i']]
                        sp = specs[rec]
                        S = ef.lookup(st, alias, key)
                        A = sp['members'][n['n']]
                        nsites += 1
                        ident = (tu.unit, f.name, key, n['n'], n['l'])
                        if S is None or S >= sp['universe']:
                            run.ob(rule, ident, True)
                            continue
                        names = sp['names']
                        sdesc = sorted(names.get(v, str(v)) for v in S)
                        adesc = sorted(names.get(v, str(v)) for v in A)
                        sample = {'site': '%s:%d %s' % (f.relfile(), n['l'], f.name), 'read': F.src(n), 'tag': key,
                                  'possible tags': sdesc, 'member active for': adesc}
                        exc = run.exception(rule, '%s:%s' % (f.name, F.src(n)))
                        if exc and not (S <= A):
                            run.ob(rule, ident, True, dict(sample, verdict='exception: ' + exc))
                        elif not (S & A):
                            run.ob(rule, ident, False, dict(sample, verdict='CONTRADICTION'))
                            run.violation(rule, f, 'read %s with %s in {%s}' % (F.src(n), key, ','.join(sdesc)),
                                          '%s is read where %s can only be {%s}; member %s is active only for {%s}'
                                          % (F.src(n), key, ', '.join(sdesc), n['n'], ', '.join(adesc)), line=n['l'])
                        elif level == 'incomplete' and not (S <= A) and tested.get(key, 0) >= dispatcher_min \
                                and len(S) <= max(3, len(A) + 1):
                            run.ob(rule, ident, False, dict(sample, verdict='INCOMPLETE DISPATCH'))
                            extra = sorted(names.get(v, str(v)) for v in S - A)
                            run.violation(rule, f, 'read %s with %s in {%s}' % (F.src(n), key, ','.join(sdesc)),
                                          'incomplete dispatch: %s is read where %s may still be {%s}; the branch for {%s} '
                                          'falls through to code that treats the object as %s'
                                          % (F.src(n), key, ', '.join(sdesc), ', '.join(extra), ', '.join(adesc)), line=n['l'])
                        else:
                            run.ob(rule, ident, True, dict(sample, verdict='consistent') if S <= A else None)
    return nsites
