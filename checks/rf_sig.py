"""RF8 opcode semantic signature agreement: interpreter handlers, GVN constant folder, mir2c
templates, each against the opcode-name grammar (spec/opcodes.py) and against each other."""
import os, re, sys
from lib import facts as F
from lib import regions as R
sys.path.insert(0, os.path.join(F.VERIF, 'spec'))
import opcodes as SPEC
import rf_tables

ARITH_OPS = {'+', '-', '*', '/', '%', '&', '|', '^', '<<', '>>'}
CMP_OPS = {'==', '!=', '<', '<=', '>', '>='}
CONV_CK = {'IntegralToFloating', 'FloatingToIntegral', 'FloatingCast', 'IntegralCast'}


def tdesc(t):
    """(dom, width, signed) of a clang type"""
    if t is None:
        return None
    if t.kind in ('int', 'enum', 'bool'):
        return ('i', t.w, bool(t.signed))
    if t.kind == 'float':
        return ({32: 'f', 64: 'd'}.get(t.w, 'ld'), t.w, None)
    if t.kind in ('ptr', 'fptr'):
        return ('p', t.w, False)
    return (t.kind, t.w, None)


def tshow(d):
    if d is None:
        return '?'
    dom, w, s = d
    if dom == 'i':
        return '%sint%s' % ('' if s else 'u', w)
    return {'f': 'float', 'd': 'double', 'ld': 'long double'}.get(dom, dom)


class ESig:
    """signature extracted from an engine for one opcode"""

    def __init__(self, kind, op=None, ty=None, chain=None, operands=None, node=None, note=''):
        self.kind, self.op, self.ty, self.chain, self.operands, self.node, self.note = kind, op, ty, chain or [], operands, node, note

    def show(self):
        if self.kind in ('bin', 'bcmp'):
            return '%s %s on %s%s' % (self.kind, self.op, tshow(self.ty),
                                      ' operands %s' % (self.operands,) if self.operands else '')
        if self.kind == 'unary':
            return 'unary %s on %s' % (self.op, tshow(self.ty))
        if self.kind == 'conv':
            return 'conv ' + ' -> '.join(tshow(c) for c in self.chain)
        return self.kind


def core_sig(tu, e, env=None):
    """walk an rvalue expression down to its deciding operator"""
    chain = []
    n = e
    while n is not None:
        k = n['k']
        if k == 'ImplicitCastExpr':
            if n.get('ck') in CONV_CK:
                chain.append(tdesc(tu.type(n)))
            n = n['c'][0]
            continue
        if k == 'CStyleCastExpr':
            chain.append(tdesc(tu.type(n)))
            n = n['c'][0]
            continue
        break
    if n is None:
        return None
    k = n['k']
    if k == 'BinaryOperator' and n['op'] in ARITH_OPS | CMP_OPS:
        if n['op'] in CMP_OPS:
            ty = tdesc(tu.type(n['c'][0]))
        else:
            ty = tdesc(tu.type(n))
        l, r = leaf_var(n['c'][0]), leaf_var(n['c'][1])
        return ESig('bin', n['op'], ty, chain, (l, r), n)
    if k == 'UnaryOperator' and n['op'] in ('-', '~', '!'):
        return ESig('unary', n['op'], tdesc(tu.type(n)), chain, (leaf_var(n['c'][0]),), n)
    if k == 'DeclRefExpr':
        chain.append(tdesc(tu.type(n)))
        chain.reverse()
        # collapse equal neighbours
        c2 = []
        for c in chain:
            if not c2 or c2[-1] != c:
                c2.append(c)
        return ESig('conv', None, None, c2, (n['n'],), n)
    if k == 'UnaryOperator' and n['op'] == '*':
        chain.append(tdesc(tu.type(n)))
        chain.reverse()
        return ESig('conv', None, None, chain, None, n, note='deref')
    return ESig('other:' + k, node=n)


def leaf_var(e):
    e = F.strip(e)
    if e is not None and e['k'] == 'DeclRefExpr':
        return e['n']
    return None


# ---------------------------------------------------------------------------------------------
# interpreter
# ---------------------------------------------------------------------------------------------

def operand_index_map(tu, stmts):
    """local variable -> operand index, from `x = *get_?op (bp, ops + k)` initialisers and from
    loader calls  get_3iops (bp, ops, &p1, &p2)  (k-th address argument = operand k)"""
    idx = {}
    for n in R.region_nodes(stmts):
        if n['k'] == 'DeclStmt':
            for d in n['decls']:
                if d.get('init') is None:
                    continue
                for x in F.walk(d['init']):
                    if x['k'] == 'BinaryOperator' and x['op'] == '+' and leaf_var(x['c'][0]) == 'ops' and F.const_value(x['c'][1]) is not None:
                        idx[d['n']] = F.const_value(x['c'][1])
                if d['n'] not in idx and any(leaf_var(x) == 'ops' for x in F.walk(d['init']) if x['k'] == 'DeclRefExpr'):
                    idx.setdefault(d['n'], 0)
        if n['k'] == 'CallExpr':
            args = F.call_args(n)
            if any(leaf_var(a) == 'ops' for a in args):
                k = 0
                for a in args:
                    a = F.strip(a)
                    if a['k'] == 'UnaryOperator' and a['op'] == '&' and leaf_var(a['c'][0]):
                        k += 1
                        idx[leaf_var(a['c'][0])] = k
    return idx


def interp_sigs(tu):
    f = tu.func('eval')
    regs = R.label_regions(f, 'L_')
    out = {}
    for lab, stmts in regs.items():
        code = lab[2:]
        if not code.startswith('MIR_'):
            continue
        results, branches = [], []
        for n in R.region_nodes(stmts[1:]):
            if n['k'] == 'BinaryOperator' and n['op'] == '=':
                l = F.strip(n['c'][0])
                if l['k'] == 'UnaryOperator' and l['op'] == '*' and leaf_var(l['c'][0]):
                    results.append(n)
            if n['k'] == 'IfStmt':
                th = n['c'][1]
                if th is not None and any(x['k'] == 'BinaryOperator' and x['op'] == '=' and leaf_var(x['c'][0]) == 'pc'
                                          for x in F.walk(th)):
                    branches.append(n)
        sig = None
        if branches:
            c = core_sig(tu, branches[-1]['c'][0])
            if c is not None and c.kind == 'bin':
                c.kind = 'bcmp'
            sig = c
        elif results:
            sig = core_sig(tu, results[-1]['c'][1])
        if sig is not None:
            om = operand_index_map(tu, stmts[1:])
            if sig.operands:
                sig.operands = tuple(om.get(v) for v in sig.operands)
                # for conversions the leaf local's own initialiser may narrow (EXT: tp s = (tp) *get_iop ())
            if sig.kind == 'conv' and sig.node is not None and sig.node['k'] == 'DeclRefExpr':
                init = local_init(stmts[1:], sig.node['n'])
                if init is not None:
                    pre = core_sig(tu, init)
                    if pre is not None and pre.kind == 'conv':
                        ch = pre.chain + sig.chain
                        c2 = []
                        for c in ch:
                            if not c2 or c2[-1] != c:
                                c2.append(c)
                        sig.chain = c2
            out[code] = sig
    return f, regs, out


def local_init(stmts, name):
    for n in R.region_nodes(stmts):
        if n['k'] == 'DeclStmt':
            for d in n['decls']:
                if d['n'] == name and d.get('init') is not None:
                    return d['init']
    return None


# ---------------------------------------------------------------------------------------------
# GVN constant folder
# ---------------------------------------------------------------------------------------------

def folder_function(tu):
    """the function of mir-gen.c that folds constants per opcode: the one with a switch on insn->code
    whose regions assign a local named like the value later stored in gvn_val"""
    best = None
    for f in tu.func_list:
        if not any(n['k'] == 'MemberExpr' and n['n'] == 'gvn_val_const_p' for n in f.walk()):
            continue
        for sw in R.find_switches(f, lambda c: c.endswith('->code')):
            regs = R.switch_regions(f, sw)
            if len(regs) > 30:
                best = (f, sw, regs)
    if best is None:
        raise F.AnalysisBroken('GVN constant-folding switch not found in mir-gen.c')
    return best


def folder_sigs(tu):
    f, sw, regs = folder_function(tu)
    # the folded-value variable: local assigned in most regions
    from collections import Counter
    cnt = Counter()
    for r in regs:
        seen = set()
        for n in R.region_nodes(r['stmts']):
            if n['k'] == 'BinaryOperator' and n['op'] == '=' and leaf_var(n['c'][0]):
                seen.add(leaf_var(n['c'][0]))
        cnt.update(seen)
    cnt.pop('const_p', None)
    if not cnt:
        raise F.AnalysisBroken('no folded-value variable found in %s' % f.name)
    valvar = cnt.most_common(1)[0][0]
    out = {}
    for r in regs:
        names = [c[0] for c in r['cases'] if c[0]]
        assigns = [n for n in R.region_nodes(r['stmts'])
                   if n['k'] == 'BinaryOperator' and n['op'] == '=' and leaf_var(n['c'][0]) == valvar]
        # ignore the non-zero divisor probe `get_gvn_op (insn, 2, &val)` (not an assignment) — only '=' counted
        if not assigns:
            continue
        sig = core_sig(tu, assigns[-1]['c'][1])
        if sig is None or sig.kind.startswith('other'):
            continue
        om = folder_operand_map(r['stmts'])
        if sig.operands:
            sig.operands = tuple(om.get(v) for v in sig.operands)
        for nm in names:
            out[nm] = sig
    return f, regs, out, valvar


def folder_operand_map(stmts):
    idx = {}
    for n in R.region_nodes(stmts):
        if n['k'] == 'CallExpr':
            args = F.call_args(n)
            if any(leaf_var(a) == 'insn' for a in args):
                k = 0
                for a in args:
                    a = F.strip(a)
                    if a['k'] == 'UnaryOperator' and a['op'] == '&' and leaf_var(a['c'][0]):
                        k += 1
                        idx.setdefault(leaf_var(a['c'][0]), k)
    return idx


# ---------------------------------------------------------------------------------------------
# mir2c
# ---------------------------------------------------------------------------------------------
CAST_RE = re.compile(r'\(\s*(u?int(?:8|16|32|64)_t|float|double|long double)\s*\*?\s*\)')
CT = {'float': ('f', 32, None), 'double': ('d', 64, None), 'long double': ('ld', 128, None)}


def ctype_desc(name):
    if name in CT:
        return CT[name]
    m = re.fullmatch(r'(u?)int(\d+)_t', name)
    return ('i', int(m.group(2)), m.group(1) == '')


def helper_template(tu, f):
    """ordered list of things a mir2c helper prints: ('lit', text) | ('op', k) | ('str',) | ('jmp', k)"""
    seq = []
    for n in f.walk():
        if n['k'] != 'CallExpr':
            continue
        c = n.get('callee')
        args = F.call_args(n)
        if c == 'fprintf' and len(args) >= 2:
            fmt = F.strip(args[1])
            if fmt['k'] == 'StringLiteral':
                s = fmt['s']
                parts = re.split(r'(%s)', s)
                ai = 2
                for p in parts:
                    if p == '%s':
                        a = F.strip(args[ai]) if ai < len(args) else None
                        ai += 1
                        if a is not None and a['k'] == 'DeclRefExpr' and a.get('dk') == 'param':
                            seq.append(('str', a['n']))
                        elif a is not None and a['k'] == 'StringLiteral':
                            seq.append(('lit', a['s']))
                        else:
                            seq.append(('dyn',))
                    elif p:
                        seq.append(('lit', p))
        elif c in ('out_op', 'out_jmp'):
            a = F.strip(args[-1])
            k = None
            if a['k'] == 'ArraySubscriptExpr':
                k = F.const_value(a['c'][1])
            seq.append(('op' if c == 'out_op' else 'jmp', k))
        elif c and c.startswith('out_') and c not in ('out_op', 'out_jmp'):
            seq.append(('call', c))
    return seq


def template_text(seq, opstr):
    """render a helper's template with a given operator string"""
    out = []
    for s in seq:
        if s[0] == 'lit':
            out.append(s[1])
        elif s[0] == 'str':
            out.append((opstr if opstr is not None else '') )
        elif s[0] == 'op':
            out.append('$%s' % s[1])
        elif s[0] == 'jmp':
            out.append('goto $%s;' % s[1])
        else:
            out.append('<?>')
    return ''.join(out)


def promote(ty):
    """C integer promotion of an operand type descriptor"""
    if ty is not None and ty[0] == 'i' and ty[1] < 32:
        return ('i', 32, True)
    return ty


def arith_conv(a, b):
    """usual arithmetic conversions for two integer type descriptors (LP64)"""
    a, b = promote(a), promote(b)
    if a is None or b is None or a[0] != 'i' or b[0] != 'i':
        return None
    if a[2] == b[2]:
        return a if a[1] >= b[1] else b
    u, g = (a, b) if not a[2] else (b, a)
    if u[1] >= g[1]:
        return u
    return g


def parse_c_template(txt, natural=None):
    """signature of a rendered one-line C template:
       $0 = (T) $1 OP (T) $2;   |  if ((T) $1 OP (T) $2) goto $0  |  $0 = CASTS $1;  |  $0 = - (T) $1
       natural: {operand index: type descriptor} of operands printed without a cast (when the operand kinds are known)"""
    t = ' '.join(txt.split())

    def binty(t1, t2):
        if natural is not None:
            e1 = ctype_desc(t1) if t1 else natural.get(1)
            e2 = ctype_desc(t2) if t2 else natural.get(2)
            r = arith_conv(e1, e2)
            return r, r is not None
        if t1 != t2:
            return None, False
        return (ctype_desc(t1) if t1 else None), True
    # wrapping form: computed in one type, the result converted to another:  $0 = (R) ((T) $1 OP (T) $2);
    m = re.fullmatch(r'\$0 = \((?P<r>[a-z0-9_ ]+)\) ?\((?:\((?P<t1>[a-z0-9_ ]+)\) ?)?\$1 (?P<op>[-+*/%&|^<>=!]+) (?:\((?P<t2>[a-z0-9_ ]+)\) ?)?\$2\);', t)
    if m:
        ty, ok = binty(m.group('t1'), m.group('t2'))
        if not ok:
            return ESig('other:mixed-casts', note=t)
        sg = ESig('bin', m.group('op'), ty, operands=(1, 2), note=t)
        sg.outer = ctype_desc(m.group('r'))
        return sg
    m = re.fullmatch(r'\$0 = \((?P<r>[a-z0-9_ ]+)\) ?- ?\((?P<t>[a-z0-9_ ]+)\) ?\$1;', t)
    if m:
        sg = ESig('unary', '-', ctype_desc(m.group('t')), operands=(1,), note=t)
        sg.outer = ctype_desc(m.group('r'))
        return sg
    m = re.fullmatch(r'\$0 = (?:\((?P<t1>[a-z0-9_ ]+)\) ?)?\$1 (?P<op>[-+*/%&|^<>=!]+) (?:\((?P<t2>[a-z0-9_ ]+)\) ?)?\$2;', t)
    if m:
        ty, ok = binty(m.group('t1'), m.group('t2'))
        if not ok:
            return ESig('other:mixed-casts', note=t)
        return ESig('bin', m.group('op'), ty, operands=(1, 2), note=t)
    m = re.fullmatch(r'if \((?:\((?P<t1>[a-z0-9_ ]+)\) ?)?\$1 (?P<op>[<>=!]+) (?:\((?P<t2>[a-z0-9_ ]+)\) ?)?\$2\) goto \$0;', t)
    if m:
        ty, ok = binty(m.group('t1'), m.group('t2'))
        if not ok:
            return ESig('other:mixed-casts', note=t)
        return ESig('bcmp', m.group('op'), ty, operands=(1, 2), note=t)
    m = re.fullmatch(r'\$0 = (?P<neg>- ?)?(?P<casts>(?:\([a-z0-9_ ]+\) ?)*)\$1;', t)
    if m:
        casts = [ctype_desc(c) for c in re.findall(r'\(([a-z0-9_ ]+)\)', m.group('casts'))]
        if m.group('neg'):
            return ESig('unary', '-', casts[0] if casts else None, operands=(1,), note=t)
        casts.reverse()
        return ESig('conv', None, None, casts, (1,), note=t)
    return ESig('other:unparsed', note=t)


FMT_CONV = re.compile(r'%[-#0 +]*[0-9*]*(?:\.[0-9*]+)?(?:hh|h|ll|l|L|z|j|t)?[a-zA-Z]')


class Renderer:
    """renders what a mir2c case prints for one opcode: fprintf literals with their %s arguments resolved, operands as $k"""

    def __init__(self, tu, preds):
        self.tu, self.preds = tu, preds
        self.scenario = None   # {operand index: {'mode': v, 'memtype': v or None}} when rendering under operand kinds
        self.unresolved = 0

    def operand_index(self, a, binds):
        """operand number denoted by an expression: ops[k], insn->ops[k], or a parameter bound to one"""
        a = F.strip(a)
        if a['k'] == 'ArraySubscriptExpr':
            return F.const_value(a['c'][1])
        if a['k'] == 'DeclRefExpr' and isinstance(binds.get(('op', a['n'])), int):
            return binds[('op', a['n'])]
        return None

    def scenario_env(self, env, binds):
        e2 = dict(env)
        if self.scenario is None:
            return e2
        for key, k in binds.items():
            if isinstance(key, tuple) and key[0] == 'op' and k in self.scenario:
                e2['%s.mode' % key[1]] = self.scenario[k]['mode']
                if self.scenario[k].get('memtype') is not None:
                    e2['%s.u.mem.type' % key[1]] = self.scenario[k]['memtype']
        for arr in [key[1] for key in binds if isinstance(key, tuple) and key[0] == 'arr'] + ['ops', 'insn->ops']:
            for k, sc in self.scenario.items():
                e2['%s[%d].mode' % (arr, k)] = sc['mode']
                if sc.get('memtype') is not None:
                    e2['%s[%d].u.mem.type' % (arr, k)] = sc['memtype']
        return e2

    def arg_text(self, a, env, binds):
        a = F.strip(a)
        if a['k'] == 'StringLiteral':
            return a['s']
        if a['k'] == 'ConditionalOperator':
            c = self.preds.eval(a['c'][0], env, frozenset())
            if c is None:
                return '<?>'
            return self.arg_text(a['c'][1] if c else a['c'][2], env, binds)
        if a['k'] == 'DeclRefExpr' and a['n'] in binds:
            return binds[a['n']] if binds[a['n']] is not None else ''
        v = self.preds.eval(a, env, frozenset())
        if v is not None:
            return str(v)
        return '<?>'

    def render(self, f, stmt, env, binds, depth=0):
        if stmt is None:
            return ''
        k = stmt['k']
        if k == 'CompoundStmt':
            out = ''
            for x in F.kids(stmt):
                out += self.render(f, x, env, binds, depth)
                if x['k'] in ('BreakStmt', 'ReturnStmt'):
                    break
            return out
        if k in ('CaseStmt', 'DefaultStmt', 'LabelStmt'):
            ks = F.kids(stmt)
            return self.render(f, ks[0], env, binds, depth) if ks else ''
        if k == 'IfStmt':
            e2 = self.scenario_env(env, binds)
            for n_, v_ in binds.items():
                if isinstance(n_, str):
                    e2[n_] = 0 if v_ is None else 1
            c = self.preds.eval(stmt['c'][0], e2, frozenset())
            if c is None:
                self.unresolved += 1
                return '<if?>'
            return self.render(f, stmt['c'][1] if c else stmt['c'][2], env, binds, depth)
        if k in ('ForStmt', 'WhileStmt', 'DoStmt'):
            return '<loop>'
        if k in ('BreakStmt', 'ReturnStmt', 'NullStmt', 'DeclStmt'):
            return ''
        if k in F.CASTS:
            return self.render(f, stmt['c'][0], env, binds, depth)
        if k == 'CallExpr':
            c = stmt.get('callee')
            args = F.call_args(stmt)
            if c == 'fprintf' and len(args) >= 2:
                fmt = F.strip(args[1])
                if fmt['k'] == 'ConditionalOperator':
                    cv = self.preds.eval(fmt['c'][0], env, frozenset())
                    if cv is None:
                        return '<?>'
                    fmt = F.strip(fmt['c'][1] if cv else fmt['c'][2])
                if fmt['k'] != 'StringLiteral':
                    return '<?>'
                out, pos, ai = '', 0, 2
                for m in FMT_CONV.finditer(fmt['s']):
                    out += fmt['s'][pos:m.start()]
                    pos = m.end()
                    if m.group(0) == '%%':
                        out += '%'
                        continue
                    out += self.arg_text(args[ai], env, binds) if ai < len(args) else '<?>'
                    ai += 1
                out += fmt['s'][pos:]
                return out
            if c in ('out_op', 'out_jmp'):
                kk = self.operand_index(args[-1], binds)
                if c == 'out_op':
                    return '$%s' % kk
                return 'goto $%s;\n' % kk
            if c and c.startswith('out_') and c in self.tu.funcs and depth < 3:
                g = self.tu.funcs[c]
                nb = {}
                for prm, a in zip(g.params, args):
                    a = F.strip(a)
                    if a['k'] == 'StringLiteral':
                        nb[prm['n']] = a['s']
                    elif a['k'] == 'ConditionalOperator':
                        nb[prm['n']] = self.arg_text(a, env, binds)
                    elif F.const_value(a) == 0 and self.tu.types[prm['t']].kind == 'ptr':
                        nb[prm['n']] = None
                    elif a['k'] == 'DeclRefExpr' and a['n'] in binds:
                        nb[prm['n']] = binds[a['n']]
                    pt = self.tu.types[prm['t']]
                    if 'MIR_op_t' in pt.s:
                        if pt.kind == 'ptr':
                            nb[('arr', prm['n'])] = True
                        else:
                            oi = self.operand_index(a, binds)
                            if oi is not None:
                                nb[('op', prm['n'])] = oi
                return self.render(g, g.body, env, nb, depth + 1)
            if is_error_like(stmt):
                return '<error>'
            return ''
        return ''


def is_error_like(n):
    c = F.strip(n['c'][0])
    if c['k'] == 'UnaryOperator':
        c = F.strip(c['c'][0])
    return c['k'] == 'CallExpr' and c.get('callee') == 'MIR_get_error_func'


OVF_STMT = re.compile(r'(?P<flag>\w+) = __builtin_(?P<op>add|sub|mul)_overflow\(\((?P<t1>[a-z0-9_ ]+)\) ?\$1, \((?P<t2>[a-z0-9_ ]+)\) ?\$2, '
                      r'(?:\((?P<t3>[a-z0-9_ ]+) \*\) ?&\$0|&(?P<tmp>\w+))\);')
OVF_DECL = re.compile(r'\{ ?(?P<t>[a-z0-9_]+) (?P<n>\w+);')


OVF_ASSIGN = re.compile(r'\$0 = (?P<n>\w+);')


def parse_overflow(t):
    """`[{T tmp; FLAG = __builtin_OP_overflow((T)$1, (T)$2, &tmp); [$0 = tmp;]}]* [FLAG = __builtin_OP_overflow((T)$1, (T)$2, (T *)&$0);]`
    -> ESig 'bin' with .flags {flag name: type descriptor}, or None when the text has no overflow builtin.  The result is
    stored either by the last call (through a pointer to the destination) or by an assignment of one call's temporary that
    follows the last call (the result may be one of the sources)."""
    if '_overflow(' not in t:
        return None
    temps = {m.group('n'): m.group('t') for m in OVF_DECL.finditer(t)}
    rest = OVF_DECL.sub('', t).replace('}', ' ')
    stmts = list(OVF_STMT.finditer(rest))
    asg = list(OVF_ASSIGN.finditer(rest))
    if not stmts or OVF_ASSIGN.sub('', OVF_STMT.sub('', rest)).strip() or len(asg) > 1:
        return ESig('other:unparsed', note=t)
    flags, res, rty = {}, None, None
    for i, m in enumerate(stmts):
        dt = m.group('t3') if m.group('t3') else temps.get(m.group('tmp'))
        if dt is None or not (m.group('t1') == m.group('t2') == dt):
            return ESig('other:mixed-casts', note=t)
        if m.group('flag') in flags or m.group('op') != stmts[0].group('op'):
            return ESig('other:unparsed', note=t)
        flags[m.group('flag')] = ctype_desc(dt)
        if m.group('t3'):
            if res is not None or asg or i != len(stmts) - 1:
                return ESig('other:result-written-before-the-last-flag', note=t)
            res, rty = m, dt
        elif asg and m.group('tmp') == asg[0].group('n'):
            if res is not None:
                return ESig('other:unparsed', note=t)
            if asg[0].start() < stmts[-1].end():
                return ESig('other:result-written-before-the-last-flag', note=t)
            res, rty = m, dt
    if res is None:
        return ESig('other:unparsed', note=t)
    sg = ESig('bin', {'add': '+', 'sub': '-', 'mul': '*'}[res.group('op')], ctype_desc(rty), operands=(1, 2), note=t)
    sg.flags = flags
    return sg


BTF_RE = re.compile(r'if \((?P<neg>!)?\((?P<t>[a-z0-9_ ]+)\) \$1\) goto \$0;')


def parse_rendered(txt, natural=None):
    t = ' '.join(txt.split())
    sg = parse_overflow(t)
    if sg is not None:
        return sg
    m = BTF_RE.fullmatch(t)
    if m:
        return ESig('btf', '!' if m.group('neg') else '', ctype_desc(m.group('t')), operands=(1,), note=t)
    return parse_c_template(t, natural)


def mir2c_sigs(tu):
    f = tu.func('out_insn')
    sws = R.find_switches(f, lambda c: c.endswith('->code') or c == 'code')
    if not sws:
        raise F.AnalysisBroken('switch on insn->code not found in mir2c out_insn')
    sw = max(sws, key=lambda s: len(R.switch_regions(f, s)))
    regs = R.switch_regions(f, sw)
    from lib import enumflow as EF
    preds = EF.Predicates(tu)
    rd = Renderer(tu, preds)
    codes = dict(tu.enum('MIR_insn_code_t'))
    modes = dict(tu.enum('MIR_op_mode_t'))
    tys = dict(tu.enum('MIR_type_t'))
    kinds = [('a register', {'mode': modes['MIR_OP_REG']}, ('i', 64, True)),
             ('a signed immediate', {'mode': modes['MIR_OP_INT']}, ('i', 64, True)),
             ('an unsigned immediate', {'mode': modes['MIR_OP_UINT']}, ('i', 64, False))]
    for tn, w, sg_ in (('I8', 8, True), ('U8', 8, False), ('I16', 16, True), ('U16', 16, False), ('I32', 32, True), ('U32', 32, False),
                       ('I64', 64, True), ('U64', 64, False)):
        kinds.append(('%s memory' % tn.lower(), {'mode': modes['MIR_OP_MEM'], 'memtype': tys['MIR_T_' + tn]}, ('i', w, sg_)))
    out = {}
    handled = set()
    for r in regs:
        names = [c[0] for c in r['cases'] if c[0]]
        handled.update(names)
        for nm in names:
            env = {'insn->code': codes.get(nm), 'code': codes.get(nm)}
            def render_all():
                t_ = ''
                for st in r['stmts']:
                    t_ += rd.render(f, st, env, {})
                    if st['k'] == 'BreakStmt':
                        break
                return t_
            rd.scenario = None
            txt = render_all()
            if '<if?>' in txt:
                # what is printed depends on the operands' kinds: render under every kind of the two source operands
                variants = []
                for d1, s1, n1 in kinds:
                    for d2, s2, n2 in kinds:
                        rd.scenario = {1: s1, 2: s2}
                        tv = render_all()
                        sg = parse_rendered(tv, {1: n1, 2: n2})
                        sg.note = ' '.join(tv.split())[:120]
                        sg.node = r['stmts'][0] if r['stmts'] else None
                        variants.append(('operand 1 = %s, operand 2 = %s' % (d1, d2), sg))
                rd.scenario = None
                sig = ESig('multi', note=' '.join(txt.split())[:120])
                sig.variants = variants
                sig.node = r['stmts'][0] if r['stmts'] else None
                out[nm] = sig
                continue
            sig = parse_rendered(txt)
            sig.node = r['stmts'][0] if r['stmts'] else None
            sig.text = ' '.join(txt.split())
            sig.note = sig.text[:120]
            out[nm] = sig
    return f, regs, out, handled


# ---------------------------------------------------------------------------------------------
# comparison against the specification
# ---------------------------------------------------------------------------------------------

def check_against_spec(spec, sig, fp_by_operand=False, branch_as_value=False):
    """None if sig satisfies spec, else a reason string.  fp_by_operand: the engine leaves floating-point typing
    to the operands' declared C types (mir2c), so a cast-free template is acceptable for f/d/ld opcodes"""
    if sig is None:
        return 'no result statement recognised'
    if sig.kind.startswith('other'):
        return 'unrecognised handler shape (%s)' % sig.note
    k = spec.kind
    if k in ('arith', 'cmp', 'bcmp', 'overflow'):
        want_kind = 'bcmp' if k == 'bcmp' else 'bin'
        if sig.kind != want_kind and not (branch_as_value and sig.kind == 'bin'):
            return 'expected a %s, found %s' % ('compare-and-branch' if k == 'bcmp' else 'binary operation', sig.show())
        if sig.op != spec.op:
            return 'operator is %s, the opcode name demands %s' % (sig.op, spec.op)
        if sig.operands and None not in sig.operands and tuple(sig.operands) != (1, 2):
            return 'operands are taken in order %s, expected (1, 2)' % (sig.operands,)
        return check_type(spec, sig.ty, fp_by_operand) or check_outer(spec, sig)
    if k == 'unary':
        if sig.kind != 'unary' or sig.op != spec.op:
            return 'expected unary %s, found %s' % (spec.op, sig.show())
        return check_type(spec, sig.ty, fp_by_operand) or check_outer(spec, sig)
    if k == 'ext':
        if sig.kind != 'conv' or not sig.chain:
            return 'expected an extension (conversion through a narrow type), found %s' % sig.show()
        ints = [c for c in sig.chain if c and c[0] == 'i']
        if not ints:
            return 'no integer narrowing in %s' % sig.show()
        narrow = min(ints, key=lambda c: c[1])
        if narrow[1] != spec.width:
            return 'narrows to %d bits, the opcode name demands %d' % (narrow[1], spec.width)
        if narrow[2] != spec.signed:
            return '%s extension, the opcode name demands %s' % ('sign' if narrow[2] else 'zero', 'sign' if spec.signed else 'zero')
        return None
    if k == 'conv':
        if sig.kind != 'conv' or not sig.chain:
            return 'expected a conversion, found %s' % sig.show()
        dst = sig.chain[-1]
        src = sig.chain[-2] if len(sig.chain) >= 2 else None
        if dst[0] != spec.res_dom:
            return 'converts to %s, the opcode name demands %s' % (tshow(dst), spec.res_dom)
        if spec.res_dom == 'i' and (dst[1] != 64 or dst[2] is not True):
            return 'integer result is %s, expected signed 64-bit' % tshow(dst)
        if src is None:
            if not fp_by_operand:
                return 'no conversion present (%s)' % sig.show()
            # the source's type is the operand's declared C type; an unsigned source needs an explicit cast
            if spec.dom == 'i' and spec.signed is False:
                return 'unsigned source requires a (uint64_t) cast of the operand, template has %s' % sig.show()
            return None
        if spec.dom == 'i':
            want_signed = spec.signed is not False
            if src[0] != 'i' or src[1] != 64 or src[2] != want_signed:
                return 'integer source is %s, the opcode name demands %s 64-bit' % (tshow(src), 'signed' if want_signed else 'unsigned')
        elif src[0] != spec.dom:
            return 'source is %s, the opcode name demands %s' % (tshow(src), spec.dom)
        return None
    return None


def check_outer(spec, sig):
    """the conversion applied to the computed value before it is stored (wrapping templates): same width, signed, so that
    the 64-bit C variable receives the sign-extended result like every other template of that width"""
    o = getattr(sig, 'outer', None)
    if o is None:
        return None
    if o[0] != 'i' or o[1] != spec.width:
        return 'result converted to %s, the opcode name demands a %d-bit integer result' % (tshow(o), spec.width)
    if spec.kind in ('arith', 'unary') and o[2] is not True:
        return 'result converted to %s: the stored value is not sign-extended like the other %d-bit results' % (tshow(o), spec.width)
    return None


WRAP_OPS = ('+', '-', '*', '<<')


def wrap_reason(spec, sig):
    """C clause of the mir2c templates: MIR integer +, -, *, <<, unary - wrap around; in C the signed forms are undefined on
    overflow (an optimising C compiler folds `x + 1 < x`), so the template has to compute in the unsigned type"""
    if spec.dom != 'i' or spec.kind not in ('arith', 'unary') or sig.op not in WRAP_OPS or sig.kind not in ('bin', 'unary'):
        return None
    if sig.ty is not None and sig.ty[0] == 'i' and sig.ty[2] is True:
        return 'computed as signed %d-bit `%s`: overflow is undefined behaviour in C while the MIR instruction wraps around' % (sig.ty[1], sig.op)
    return None


def check_type(spec, ty, fp_by_operand=False):
    if spec.dom != 'i':
        if ty is None:
            return None if fp_by_operand else 'no operand type found'
        if ty[0] != spec.dom:
            return 'computed in %s, the opcode name demands %s' % (tshow(ty), spec.dom)
        return None
    if ty is None:
        return 'integer opcode but operands are not cast to an integer type'
    if ty[0] != 'i':
        return 'computed in %s, the opcode name demands a %d-bit integer' % (tshow(ty), spec.width)
    if ty[1] != spec.width:
        return 'computed in %d bits, the opcode name demands %d' % (ty[1], spec.width)
    if spec.signed is not None and ty[2] != spec.signed:
        return 'computed as %s, the opcode name demands %s' % ('signed' if ty[2] else 'unsigned', 'signed' if spec.signed else 'unsigned')
    return None


def normalise(spec, sig):
    """signature reduced to what matters for the opcode (signedness dropped where two's complement makes it irrelevant)"""
    if sig is None:
        return None
    ty = sig.ty
    if ty is not None and ty[0] == 'i' and spec is not None and spec.signed is None:
        ty = (ty[0], ty[1], None)
    ch = tuple(sig.chain) if sig.kind == 'conv' else ()
    return ('bin' if sig.kind == 'bcmp' else sig.kind, sig.op, ty, ch)


RF8_KINDS = ('arith', 'cmp', 'bcmp', 'overflow', 'unary', 'ext', 'conv')


def rf8(run, engines=('interp', 'folder', 'mir2c')):
    rule = 'RF8'
    run.rule(rule, 'per opcode, each engine (interpreter handler, GVN constant folder, mir2c template) applies the C operator, '
                   'operand width, signedness and floating kind that the opcode-name convention of MIR.md prescribes; interpreter '
                   'and folder agree pairwise')
    mir = run.tu('mir')
    codes = [n for n, v in rf_tables.insn_codes(mir)]
    specs = {c: SPEC.parse(c[4:]) for c in codes}
    table = {}
    if 'interp' in engines:
        f, regs, sigs = interp_sigs(mir)
        run.functions_analysed.add(('mir', f.name))
        table['interp'] = (f, sigs, False)
    if 'folder' in engines:
        gen = run.tu('gen')
        f, regs, sigs, valvar = folder_sigs(gen)
        run.functions_analysed.add(('gen', f.name))
        table['folder'] = (f, sigs, False)
    if 'mir2c' in engines:
        m2c = run.tu('mir2c')
        f, regs, sigs, handled = mir2c_sigs(m2c)
        run.functions_analysed.add(('mir2c', f.name))
        table['mir2c'] = (f, sigs, True)
    BTF = {'MIR_BT': ('', 64), 'MIR_BTS': ('', 32), 'MIR_BF': ('!', 64), 'MIR_BFS': ('!', 32)}
    if 'mir2c' in table:
        f, sigs, _ = table['mir2c']
        for c, (neg, w) in BTF.items():
            sig = sigs.get(c)
            if sig is None:
                continue
            ok = sig.kind == 'btf' and sig.op == neg and sig.ty is not None and sig.ty[1] == w
            run.ob(rule, ('mir2c', c), ok, {'opcode': c, 'engine': 'mir2c', 'template': sig.note, 'expected': 'if (%s(int%d_t) $1) goto $0' % (neg, w)})
            if not ok:
                run.violation(rule, f, 'mir2c handler of %s' % c, 'mir2c emits [%s] for %s; the opcode tests a %d-bit value for %s'
                              % (sig.note, c, w, 'zero' if neg else 'non-zero'), line=sig.node['l'] if sig.node else f.line)
    for c in codes:
        sp = specs[c]
        if sp is None or sp.kind not in RF8_KINDS:
            continue
        for eng, (f, sigs, fpo) in table.items():
            if c not in sigs:
                if eng == 'interp':
                    run.ob(rule, (eng, c), False)
                    run.analysis_broken(rule, 'interpreter handler of %s not recognised' % c)
                # folder handles a subset; mir2c coverage is RF7h
                continue
            sig = sigs[c]
            if sig.kind == 'multi':
                bad = unk = None
                for desc, sv in sig.variants:
                    w_ = check_against_spec(sp, sv, fpo)
                    if w_ is None and eng == 'mir2c':
                        w_ = wrap_reason(sp, sv)
                    if w_ is not None and sv.kind.startswith('other'):
                        unk = unk or (desc, sv, w_)
                    elif w_ is not None:
                        bad = bad or (desc, sv, w_)
                if bad is None and unk is not None:
                    run.ob(rule, (eng, c), False)
                    run.analysis_broken(rule, '%s: %s of %s with %s: %s' % (eng, f.name, c, unk[0], unk[2]))
                    continue
                run.ob(rule, (eng, c), bad is None, {'opcode': c, 'engine': eng, 'operand-kind variants rendered': len(sig.variants),
                                                    'specification': repr(sp), 'verdict': 'all conform' if bad is None else '%s: %s' % (bad[0], bad[2])})
                if bad is not None:
                    run.violation(rule, f, '%s handler of %s' % (eng, c),
                                  '%s prints [%s] for %s when %s, i.e. computes [%s]: %s' % (eng, bad[1].note, c, bad[0], bad[1].show(), bad[2]),
                                  line=sig.node['l'] if sig.node else f.line, slots={'extracted': bad[1].show(), 'spec': repr(sp)})
                continue
            why = check_against_spec(sp, sig, fpo, branch_as_value=(eng == 'folder'))
            if why is None and eng == 'mir2c':
                why = wrap_reason(sp, sig)
            if why is not None and (sig is None or sig.kind.startswith('other')):
                run.ob(rule, (eng, c), False)
                run.analysis_broken(rule, '%s: %s of %s: %s' % (eng, f.name, c, why))
                continue
            run.ob(rule, (eng, c), why is None, {'opcode': c, 'engine': eng, 'extracted': sig.show(),
                                                'specification': repr(sp), 'verdict': 'conforms' if why is None else why})
            if why is not None:
                run.violation(rule, f, '%s handler of %s' % (eng, c),
                              '%s computes %s as [%s]: %s' % (eng, c, sig.show(), why),
                              line=sig.node['l'] if sig.node else f.line, slots={'extracted': sig.show(), 'spec': repr(sp)})
        # pairwise interpreter = folder
        if 'interp' in table and 'folder' in table and c in table['interp'][1] and c in table['folder'][1]:
            a, b = table['interp'][1][c], table['folder'][1][c]
            na, nb = normalise(sp, a), normalise(sp, b)
            if sp.kind in ('ext', 'conv'):
                # compare the narrowing type only
                def nar(s):
                    ints = [x for x in s.chain if x and x[0] == 'i']
                    return min(ints, key=lambda x: x[1]) if ints else None
                na, nb = nar(a), nar(b)
            ok = na == nb
            run.ob(rule, ('interp=folder', c), ok, {'opcode': c, 'interpreter': a.show(), 'folder': b.show(),
                                                    'verdict': 'agree' if ok else 'DIFFER'})
            if not ok:
                ff = table['folder'][0]
                run.violation(rule, ff, 'folder vs interpreter %s' % c,
                              'GVN constant folder computes %s as [%s] but the interpreter as [%s]' % (c, b.show(), a.show()),
                              line=b.node['l'] if b.node else ff.line)
    return table


def rf8_control(run):
    """positive control: a miniature eval with five wrong handlers and one right one"""
    tu = run.control_tu('rf8_control.c')
    f, regs, sigs = interp_sigs(tu)
    bad = set()
    for code, sig in sigs.items():
        sp = SPEC.parse(code[4:])
        if check_against_spec(sp, sig) is not None:
            bad.add(code)
    run.control('RF8', 'rf8_control.c', bad == {'MIR_UDIV', 'MIR_ADDS', 'MIR_ULT', 'MIR_SUB', 'MIR_EXT8'})
