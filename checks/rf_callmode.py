"""RF19c: operand classification of call-family instructions in MIR_insn_op_mode against the documented operand layout
(MIR.md: `call proto, func, results..., args...`; `unspec code, results..., args...`), by abstract evaluation of the case
region over a finite domain of (opcode, #results, #named args, vararg flag, operand number)."""
from lib import facts as F
from lib import enumflow as EF
from lib import regions as R


class TextEnv(EF.Predicates):
    """Predicates.eval with an environment that may also bind whole rendered sub-expressions"""

    def eval(self, e, env, universe):
        # cast nodes go to the base evaluator (it applies narrowing conversions and comes back here for the operand)
        t = F.src(e) if e['k'] not in ('IntegerLiteral',) + tuple(F.CASTS) else None
        if t is not None and t in env:
            return env[t]
        return super().eval(e, env, universe)


class RetEval:
    """walks statements under env; collects (return expression, env at the return); unknown conditions fork"""

    def __init__(self, ev):
        self.ev = ev
        self.rets = []

    def run(self, stmt, env):
        """-> True when control can fall through"""
        if stmt is None:
            return True
        k = stmt['k']
        if k == 'CompoundStmt':
            for s in F.kids(stmt):
                if not self.run(s, env):
                    return False
            return True
        if k == 'IfStmt':
            c = self.ev.eval(stmt['c'][0], env, frozenset())
            if c is None:
                e1, e2 = dict(env), dict(env)
                a = self.run(stmt['c'][1], e1)
                b = self.run(stmt['c'][2], e2) if stmt['c'][2] is not None else True
                for key in list(env):
                    if e1.get(key) != e2.get(key):
                        env.pop(key, None)
                for key in set(e1) & set(e2):
                    if key not in env and e1[key] == e2[key]:
                        env[key] = e1[key]
                if a and not b:
                    env.clear(); env.update(e1)
                if b and not a:
                    env.clear(); env.update(e2)
                return a or b
            if c:
                return self.run(stmt['c'][1], env)
            return self.run(stmt['c'][2], env) if stmt['c'][2] is not None else True
        if k == 'ReturnStmt':
            ks = F.kids(stmt)
            self.rets.append((ks[0] if ks else None, dict(env), stmt))
            return False
        if k == 'DeclStmt':
            for d in stmt['decls']:
                if d.get('init') is not None:
                    v = self.ev.eval(d['init'], env, frozenset())
                    if v is None:
                        env.pop(d['n'], None)
                    else:
                        env[d['n']] = v
            return True
        if k == 'BinaryOperator' and stmt['op'] == '=':
            key = F.src(F.strip(stmt['c'][0]))
            v = self.ev.eval(stmt['c'][1], env, frozenset())
            if v is None:
                env.pop(key, None)
            else:
                env[key] = v
            return True
        if k == 'CompoundAssignOperator' and stmt['op'] in ('+=', '-=', '*='):
            key = F.src(F.strip(stmt['c'][0]))
            v = self.ev.eval(stmt['c'][1], env, frozenset())
            if v is None or not isinstance(env.get(key), int):
                env.pop(key, None)
            else:
                env[key] = {'+=': env[key] + v, '-=': env[key] - v, '*=': env[key] * v}[stmt['op']]
            return True
        if k in ('BreakStmt', 'ContinueStmt', 'GotoStmt', 'SwitchStmt', 'ForStmt', 'WhileStmt', 'DoStmt'):
            raise F.AnalysisBroken('call-family case of MIR_insn_op_mode contains a %s the evaluator does not model' % k)
        return True


def classify(ev, e, env, tu):
    """-> ('own',) | ('const', name) | ('res', k) | ('arg', k) | None"""
    e = F.strip(e)
    if e['k'] == 'ConditionalOperator':
        c = ev.eval(e['c'][0], env, frozenset())
        if c is None:
            return None
        return classify(ev, e['c'][1] if c else e['c'][2], env, tu)
    v = F.const_value(e)
    if v is not None:
        nm = {val: n for n, val in tu.enum('MIR_op_mode_t')}.get(v)
        return ('const', nm)
    t = F.src(e)
    if t == 'insn->ops[nop].mode':
        return ('own',)
    if e['k'] == 'CallExpr' and e.get('callee') == 'type2mode':
        a = F.strip(F.call_args(e)[0])
        if a['k'] == 'ArraySubscriptExpr' and F.src(F.strip(a['c'][0])) == 'proto->res_types':
            i = ev.eval(a['c'][1], env, frozenset())
            return None if i is None else ('res', i)
        if a['k'] == 'MemberExpr' and a['n'] == 'type':
            b = F.strip(a['c'][0])
            if b['k'] == 'CallExpr' and (b.get('callee') or '').endswith('get') and F.src(F.strip(F.call_args(b)[0])) == 'proto->args':
                i = ev.eval(F.call_args(b)[1], env, frozenset())
                return None if i is None else ('arg', i)
    return None


def rf19c(run):
    rule = 'RF19c'
    run.rule(rule, 'MIR_insn_op_mode, call family: for every opcode in {CALL, INLINE, JCALL, UNSPEC} x #results 0..2 x #named arguments '
                   '0..2 x vararg 0/1 x every operand number, the case returns: operand 0 its own mode; the function address INT; result '
                   'k the mode of res_types[k] with *out_p set; named argument k the mode of args[k] with *out_p clear; MIR_OP_UNDEF '
                   'exactly for operands past the named arguments of a vararg prototype (MIR.md operand layout of call/unspec)')
    tu = run.tu('mir')
    f = tu.func('MIR_insn_op_mode')
    run.functions_analysed.add(('mir', f.name))
    sws = R.find_switches(f, lambda c: c.strip('()') == 'code')
    region = None
    for sw in sws:
        for r in R.switch_regions(f, sw):
            if any(nm == 'MIR_CALL' for nm, lo, hi in r['cases']):
                region = r
    if region is None:
        raise F.AnalysisBroken('MIR_insn_op_mode: case MIR_CALL not found')
    fam = {nm for nm, lo, hi in region['cases']}
    want = {'MIR_CALL', 'MIR_INLINE', 'MIR_JCALL', 'MIR_UNSPEC'}
    if fam != want:
        run.ob(rule, ('family',), False, {'case labels': sorted(fam)})
        run.violation(rule, f, 'call-family case labels', 'the call-family case of MIR_insn_op_mode covers %s, expected %s' % (sorted(fam), sorted(want)),
                      line=region['line'])
    codes = dict(tu.enum('MIR_insn_code_t'))
    # statements executed before the switch that matter: *out_p = FALSE
    ev = TextEnv(tu)
    n = 0
    first_bad = None
    for cn in sorted(want & fam):
        start = 1 if cn == 'MIR_UNSPEC' else 2
        for nres in range(3):
            for nargs in range(3):
                for va in (0, 1):
                    total = start + nres + nargs + (2 if va else 0)
                    for nop in range(total):
                        env = {'code': codes[cn], 'insn->code': codes[cn], 'nop': nop, 'proto->nres': nres, 'proto->vararg_p': va,
                               'proto->args': 1 if nargs else 0, 'VARR_MIR_var_tlength(proto->args)': nargs, 'nops': total, '*out_p': 0}
                        if nargs == 0:
                            env['proto->args'] = 0
                        re_ = RetEval(ev)
                        for st in region['stmts']:
                            if not re_.run(st, env):
                                break
                        # expected
                        if nop == 0:
                            exp, out = ('own',), 0
                        elif nop == 1 and start == 2:
                            exp, out = ('const', 'MIR_OP_INT'), 0
                        elif nop < start + nres:
                            exp, out = ('res', nop - start), 1
                        elif nop < start + nres + nargs:
                            exp, out = ('arg', nop - start - nres), 0
                        else:
                            exp, out = ('const', 'MIR_OP_UNDEF'), 0
                        got = set()
                        outs = set()
                        for e, renv, node in re_.rets:
                            got.add(classify(ev, e, renv, tu) if e is not None else None)
                            outs.add(renv.get('*out_p'))
                        n += 1
                        ok = got == {exp} and outs == {out}
                        run.ob(rule, (cn, nres, nargs, va, nop), ok,
                               {'opcode': cn, 'results': nres, 'named args': nargs, 'vararg': va, 'operand': nop,
                                'returns': sorted(map(str, got)), 'out_p': sorted(map(str, outs)), 'specified': str(exp), 'specified out_p': out})
                        if not ok and first_bad is None:
                            first_bad = (cn, nres, nargs, va, nop, got, outs, exp, out, re_.rets[0][2]['l'] if re_.rets else region['line'])
    if first_bad is not None:
        cn, nres, nargs, va, nop, got, outs, exp, out, ln = first_bad
        if None in got or None in outs:
            raise F.AnalysisBroken('MIR_insn_op_mode call case: the evaluator cannot classify the return for %s nres=%d nargs=%d vararg=%d nop=%d (%s, out_p %s)'
                                   % (cn, nres, nargs, va, nop, got, outs))
        run.violation(rule, f, 'operand classification of the call family',
                      'for %s with a prototype of %d results, %d named arguments%s, operand %d is classified as %s (out_p %s); the '
                      'operand layout makes it %s (out_p %d): MIR_finish_func checks that operand against the wrong expectation or '
                      'not at all' % (cn, nres, nargs, ', vararg' if va else '', nop, sorted(map(str, got)), sorted(map(str, outs)), exp, out), line=ln)
    run.min_instances(rule, 200)


# ---------------------------------------------------------------------------------------------
# RF19d: operands the table declares as registers are required to be registers
# ---------------------------------------------------------------------------------------------

def rf19d(run):
    import rf_tables
    rule = 'RF19d'
    run.rule(rule, 'for every opcode and operand position where insn_descs declares MIR_OP_REG (a register is required, e.g. the '
                   'variable whose address ADDR takes): either MIR_insn_op_mode yields MIR_OP_REG for it, or — where it returns the '
                   'operand\'s own mode — MIR_finish_func sets expected_mode to MIR_OP_REG under a test that holds for that opcode and '
                   'position; otherwise an immediate or memory operand is accepted there')
    tu = run.tu('mir')
    g, rows = rf_tables.read_insn_descs(tu)
    codes = dict(tu.enum('MIR_insn_code_t'))
    modes = dict(tu.enum('MIR_op_mode_t'))
    f = tu.func('MIR_insn_op_mode')
    ff = tu.func('MIR_finish_func')
    run.functions_analysed.update({('mir', f.name), ('mir', ff.name)})
    ev = TextEnv(tu)
    sws = R.find_switches(f, lambda c: c.strip('()') == 'code')
    regions = {}
    for sw in sws:
        for r in R.switch_regions(f, sw):
            for nm, lo, hi in r['cases']:
                if nm:
                    regions[nm] = r
            if r['default']:
                regions['<default>'] = r
    # assignments expected_mode = MIR_OP_REG in the validator
    overrides = [x for x in ff.walk() if x['k'] == 'BinaryOperator' and x['op'] == '=' and F.src(F.strip(x['c'][0])) == 'expected_mode'
                 and F.const_value(x['c'][1]) == modes['MIR_OP_REG']]
    n = 0
    for row in rows:
        for k, (m, out) in enumerate(row['modes']):
            if m != 'MIR_OP_REG':
                continue
            c = row['code']
            n += 1
            reg = regions.get(c) or regions.get('<default>')
            env = {'code': codes[c], 'insn->code': codes[c], 'nop': k, 'nops': len(row['modes']), '*out_p': 0,
                   'insn_descs[code].op_modes[nop]': modes['MIR_OP_REG']}
            re_ = RetEval(ev)
            for st in reg['stmts']:
                if not re_.run(st, env):
                    break
            kinds = set()
            for e, renv, node in re_.rets:
                v = ev.eval(e, renv, frozenset()) if e is not None else None
                if v is not None:
                    kinds.add(('const', v))
                else:
                    kinds.add(classify(ev, e, renv, tu))
            direct = kinds == {('const', modes['MIR_OP_REG'])}
            covered = direct
            how = 'MIR_insn_op_mode returns MIR_OP_REG' if direct else None
            if not direct:
                for x in overrides:
                    holds = True
                    child = x
                    for a in ff.ancestors(x):
                        if a['k'] == 'IfStmt':
                            in_then = any(y is child for y in F.walk(a['c'][1])) if a['c'][1] is not None else False
                            v = ev.eval(a['c'][0], {'code': codes[c], 'insn->code': codes[c], 'i': k}, frozenset())
                            if v is None:
                                # conditions about other things (e.g. operand kinds) do not select opcodes: only structural else-chains
                                if in_then:
                                    holds = False
                                    break
                            elif bool(v) != in_then:
                                holds = False
                                break
                        if a['k'] in ('ForStmt', 'WhileStmt'):
                            break
                        child = a
                    if holds:
                        covered = True
                        how = 'MIR_finish_func overrides expected_mode at line %d' % x['l']
            run.ob(rule, (c, k), covered, {'opcode': c, 'operand': k + 1, 'MIR_insn_op_mode yields': sorted(map(str, kinds)), 'register required by': how})
            if not covered:
                run.violation(rule, ff, 'register operand %d of %s' % (k + 1, c),
                              'insn_descs requires a register as operand %d of %s, but MIR_insn_op_mode returns %s for it and MIR_finish_func does '
                              'not demand MIR_OP_REG there: `%s r, 5` is accepted' % (k + 1, c, sorted(map(str, kinds)), row['name']), line=ff.line)
    if n < 4:
        raise F.AnalysisBroken('only %d register-required operand positions found in insn_descs (4 confirmed by hand)' % n)
    return n


# ---------------------------------------------------------------------------------------------
# RF81: only register and memory operands can be outputs
# ---------------------------------------------------------------------------------------------

def rf81(run):
    from lib import regions as R
    rule = 'RF81'
    run.rule(rule, 'MIR_finish_func: the switch over the operand mode leaves can_be_out_p set only for register and memory operands; for every '
                   'other mode (immediates, references, strings, labels, …) the region that handles it clears the flag unconditionally, so '
                   'the `out_p && !can_be_out_p` test reports a non-register / non-memory output operand (MIR_out_op_error)')
    tu = run.tu('mir')
    f = tu.func('MIR_finish_func')
    run.functions_analysed.add(('mir', f.name))
    sws = [s_ for s_ in R.find_switches(f) if F.src(s_['c'][0]).replace(' ', '').endswith('.mode')]
    sws = [s_ for s_ in sws if any(x['k'] == 'BinaryOperator' and x['op'] == '=' and F.src(F.strip(x['c'][0])) == 'can_be_out_p' for x in F.walk(s_))]
    if len(sws) != 1:
        raise F.AnalysisBroken('MIR_finish_func: the operand-mode switch that sets can_be_out_p was not identified')
    sw = sws[0]
    modes = tu.enum('MIR_op_mode_t')
    byv = {}
    for nm, v in modes:
        byv.setdefault(v, nm)
    regs = R.switch_regions(f, sw)
    covered = set()
    verdict = {}
    for idx, r in enumerate(regs):
        names = []
        for (nm, lo, hi) in r['cases']:
            if lo is None:
                continue
            for v in range(lo, (hi if hi is not None else lo) + 1):
                names.append(byv.get(v, str(v)))
        # follow fall-through
        stmts = list(r['stmts'])
        j = idx
        while regs[j]['falls_into'] is not None:
            j = regs[j]['falls_into']
            stmts += regs[j]['stmts']
        clears = any(s_['k'] == 'BinaryOperator' and s_['op'] == '=' and F.src(F.strip(s_['c'][0])) == 'can_be_out_p'
                     and F.const_value(F.strip(s_['c'][1])) == 0 for s_ in stmts)
        for nm in names:
            verdict[nm] = clears
            covered.add(nm)
        if r['default']:
            dflt = clears
    for nm, v in modes:
        if nm not in covered and nm != 'MIR_OP_BOUND':
            verdict[nm] = dflt if any(r['default'] for r in regs) else False
    allowed = {'MIR_OP_REG', 'MIR_OP_MEM', 'MIR_OP_VAR', 'MIR_OP_VAR_MEM'}
    n = 0
    for nm in sorted(verdict):
        n += 1
        ok = verdict[nm] or nm in allowed
        run.ob(rule, (nm,), ok, {'operand mode': nm, 'flag cleared': verdict[nm], 'may be an output': nm in allowed})
        if not ok:
            run.violation(rule, f, 'output operand of mode %s' % nm, 'the region of the operand-mode switch that handles %s does not clear '
                          'can_be_out_p: an instruction whose output operand is a %s (e.g. `mov <item>, r`, `add "abc", a, 1`) is accepted '
                          'instead of raising MIR_out_op_error' % (nm, nm[7:].lower()), line=sw['l'])
    # the flag is tested
    tests = [x for x in f.walk() if x['k'] == 'IfStmt' and 'can_be_out_p' in F.src(x['c'][0]) and 'out_p' in F.src(x['c'][0]).replace('can_be_out_p', '')]
    n += 1
    run.ob(rule, ('test',), bool(tests))
    if not tests:
        run.violation(rule, f, 'flag not tested', 'can_be_out_p is never tested together with out_p', line=sw['l'])
    return n
