"""RF9 x86-64 selection table: arity, operand width markers, condition codes, opcode extensions against the ISA."""
import os, re, sys
from lib import facts as F
from lib import regions as R
sys.path.insert(0, os.path.join(F.VERIF, 'spec'))
import opcodes as SPEC
import x86 as ISA
import rf_tables


def read_patterns(tu):
    g = tu.global_var('patterns')
    rows = []
    for r in F.kids(g['init']):
        ks = r['c']
        c, p, rp = F.strip(ks[0]), F.strip(ks[1]), F.strip(ks[2])
        if c['k'] != 'DeclRefExpr' or p['k'] != 'StringLiteral' or rp['k'] != 'StringLiteral':
            raise F.AnalysisBroken('patterns[] row at line %s has an unexpected shape' % r.get('l'))
        rows.append({'code': c['n'], 'pat': p['s'], 'rep': rp['s'], 'line': r['l']})
    return g, rows


PAT_TOK = re.compile(r'\s*(X|\$|r|t|h\d+|z|i[0-3]|s|c\d+|m[su]?[0-3]|mf|md|mld|L|l|[0-9])')


def pat_tokens(p):
    toks, pos = [], 0
    p = p.strip()
    while pos < len(p):
        m = PAT_TOK.match(p, pos)
        if not m:
            return None
        toks.append(m.group(1))
        pos = m.end()
        while pos < len(p) and p[pos] == ' ':
            pos += 1
    return toks


def insns_of(rep):
    return [x.split() for x in rep.split(';') if x.strip()]


def rf9(run):
    rule = 'RF9'
    run.rule(rule, 'x86-64 pattern table: operand-pattern count = opcode arity; REX.W marker and memory-operand size follow the opcode '
                   'width; SETcc/Jcc condition nibbles are the ISA codes for the opcode\'s relation and signedness (unsigned codes '
                   'after ucomis/fcomip), overflow branches use O/NO/B/AE; ALU, shift, F7-group and movsx/movzx encodings match the '
                   'operation; FP less-than forms are rewritten to greater-than with swapped operands before selection (NaN)')
    gen = run.tu('gen')
    mir = run.tu('mir')
    g, rows = read_patterns(gen)
    _, descs = rf_tables.read_insn_descs(mir)
    arity = {r['code']: len(r['modes']) for r in descs}
    relfile = 'mir-gen-x86_64.c'
    fn = '<file scope>'

    def viol(r, what, msg):
        run.violation(rule, fn, 'pattern {%s, "%s", "%s"}: %s' % (r['code'], r['pat'], r['rep'][:40], what), msg, file=relfile, line=r['line'])
    if len(rows) < 600:
        raise F.AnalysisBroken('only %d pattern rows read' % len(rows))
    for r in rows:
        code = r['code']
        sp = SPEC.parse(code[4:]) if code.startswith('MIR_') else None
        toks = pat_tokens(r['pat'])
        # (a) arity
        if toks is None:
            run.ob(rule, ('parse', r['line']), False)
            run.analysis_broken(rule, 'pattern string "%s" of %s not parsable' % (r['pat'], code))
            continue
        if code in arity and arity[code] > 0 and '$' not in toks:
            ok = len(toks) == arity[code]
            run.ob(rule, ('arity', r['line']), ok, {'opcode': code, 'pattern': r['pat'], 'operands matched': len(toks), 'arity': arity[code]})
            if not ok:
                viol(r, 'arity', 'the pattern matches %d operands but %s has %d (the arity assertion is compiled out)' % (len(toks), code, arity[code]))
        if code == 'MIR_ALLOCA':
            # the size operand and the stack pointer are 64-bit values: every instruction of the replacement carries REX.W
            for k_, i_ in enumerate(insns_of(r['rep'])):
                ok = i_[0] == 'X'
                run.ob(rule, ('alloca width', r['line'], k_), ok, {'opcode': code, 'instruction': ' '.join(i_), 'REX.W': ok})
                if not ok:
                    viol(r, '32-bit instruction in ALLOCA', 'instruction `%s` of the ALLOCA replacement has no REX.W marker: the size operand is '
                         'truncated to 32 bits (alloca a, 0x100000010 hands out 16 bytes) while the interpreter uses all 64 bits' % ' '.join(i_))
        if sp is None:
            continue
        ins = insns_of(r['rep'])
        if not ins:
            continue
        # (a2) lea as arithmetic: `ap` is base + (index | displacement) — an addition; `am` is index * scale — a multiplication by
        # 1, 2, 4 or 8.  A pattern that an earlier pattern of the same opcode shadows completely (same operands, `s` against an
        # immediate class that contains 1, 2, 4, 8) can never be selected and is not judged
        if sp.dom == 'i' and sp.kind == 'arith' and len(ins) == 1 and len(ins[0]) > 1 and ins[0][1] == '8D':
            shadowed = False
            for r0 in rows:
                if r0 is r:
                    break
                t0 = pat_tokens(r0['pat'])
                if r0['code'] == code and t0 is not None and len(t0) == len(toks) and \
                        all(a == b or (b == 's' and a in ('i0', 'i1', 'i2', 'i3')) for a, b in zip(t0, toks)):
                    shadowed = True
                    break
            if not shadowed:
                forms = [t for t in ins[0] if t.startswith('a')]
                want = {'*': 'am', '+': 'ap'}.get(sp.op)
                ok = want is not None and forms == [want]
                run.ob(rule, ('lea form', r['line']), ok, {'opcode': code, 'pattern': r['pat'], 'replacement': r['rep'], 'address form': forms, 'expected': want})
                if not ok:
                    viol(r, 'lea address form', '%s with operands "%s" is encoded as lea with the address form %s: `ap` adds its second operand '
                         '(base + displacement), `am` scales it — `mul r, x, 4` would compute x + 4' % (code, r['pat'], forms))
        # (b) width: the first instruction of integer arithmetic / compare patterns
        if sp.dom == 'i' and sp.kind in ('arith', 'cmp', 'bcmp', 'unary', 'overflow') and sp.width in (32, 64):
            first = ins[0]
            # skip fixed prologue instructions such as cqo (X 99) / xor edx,edx (31 D2): take the instruction that has an operand
            main = None
            for i_ in ins:
                if any(re.fullmatch(r'[rRm][0-2]|S[0-2]', t) for t in i_):
                    main = i_
                    break
            if main is not None and main[0] in ('X', 'Y', 'Z') and not (sp.kind == 'arith' and '8D' in main and sp.width == 32 and False):
                want64 = sp.width == 64
                ok = (main[0] == 'X') == want64
                run.ob(rule, ('rexw', r['line']), ok, {'opcode': code, 'instruction': ' '.join(main), 'REX.W': main[0] == 'X', 'opcode width': sp.width})
                if not ok:
                    viol(r, 'REX.W', '%s is a %d-bit operation but its main instruction [%s] is encoded with REX.W=%d'
                         % (code, sp.width, ' '.join(main), main[0] == 'X'))
            mems = [t for t in toks if re.fullmatch(r'm[su]?[0-3]', t)]
            for m in mems:
                size = int(m[-1])
                ok = size == (3 if sp.width == 64 else 2)
                run.ob(rule, ('memsize', r['line'], m), ok)
                if not ok:
                    viol(r, 'memory operand size', '%s works on %d-bit operands but the pattern accepts memory of size code %s' % (code, sp.width, m))
        # (c) condition codes
        txt = ' ' + ' '.join(' '.join(i_) for i_ in ins) + ' '
        fp_cmp = bool(re.search(r' 0F 2E | 0F 2F | D[BF] F[01] | D[BF] E[89] ', txt)) or sp.dom != 'i'
        if sp.kind in ('cmp', 'bcmp'):
            table = ISA.CC_UNSIGNED if (fp_cmp or sp.signed is False) else ISA.CC_SIGNED
            want = table[sp.op]
            found = []
            for m in re.finditer(r' 0F 9([0-9A-F]) ', txt):
                found.append(('setcc', int(m.group(1), 16)))
            for m in re.finditer(r' 7([0-9A-F]) l\d', txt):
                found.append(('jcc8', int(m.group(1), 16)))
            for m in re.finditer(r' 0F 8([0-9A-F]) L\d', txt):
                found.append(('jcc32', int(m.group(1), 16)))
            # FEQ/FNE use parity handling: set[n]p + cmovne, jp + je/jne
            if fp_cmp and sp.op in ('==', '!='):
                found = [(k, v) for k, v in found if v not in (0xA, 0xB)]
            if sp.kind == 'bcmp' or (sp.kind == 'cmp' and not (fp_cmp and sp.op in ('==', '!='))):
                if not found:
                    run.ob(rule, ('cc', r['line']), False)
                    run.analysis_broken(rule, 'no SETcc/Jcc found in pattern of %s: "%s"' % (code, r['rep']))
                for kind, nib in found:
                    ok = nib == want
                    run.ob(rule, ('cc', r['line'], kind), ok, {'opcode': code, 'encoding': kind, 'condition nibble': '%X' % nib,
                                                             'ISA code for %s %s' % ('unsigned/fp' if table is ISA.CC_UNSIGNED else 'signed', sp.op): '%X' % want})
                    if not ok:
                        viol(r, 'condition code', '%s needs the %s condition for "%s" (nibble %X) but the %s uses nibble %X'
                             % (code, 'unsigned/floating' if table is ISA.CC_UNSIGNED else 'signed', sp.op, want, kind, nib))
        if code[4:] in ISA.CC_OVERFLOW:
            want = ISA.CC_OVERFLOW[code[4:]]
            for m in list(re.finditer(r' 7([0-9A-F]) l\d', txt)) + list(re.finditer(r' 0F 8([0-9A-F]) L\d', txt)):
                nib = int(m.group(1), 16)
                ok = nib == want
                run.ob(rule, ('ovf', r['line']), ok, {'opcode': code, 'nibble': '%X' % nib, 'ISA': '%X' % want})
                if not ok:
                    viol(r, 'overflow condition', '%s must test condition %X, the jump uses %X' % (code, want, nib))
        # (d) operation encodings
        if sp.kind == 'arith' and sp.dom == 'i':
            key = {'>>': '>>s' if sp.signed else '>>u'}.get(sp.op, sp.op)
            for i_ in ins:
                toks_i = [t for t in i_ if re.fullmatch(r'[0-9A-F]{2}', t)]
                dig = [int(t[1]) for t in i_ if re.fullmatch(r'/[0-7]', t)]
                if not toks_i:
                    continue
                opb = toks_i[0]
                if sp.op in ISA.ALU:
                    regs, d = ISA.ALU[sp.op]
                    # an ALU opcode that belongs to a different operation
                    for other, (oregs, od) in ISA.ALU.items():
                        if other == sp.op or other == 'cmp':
                            continue
                        if opb in oregs or (opb in ('81', '83') and dig and dig[0] == od):
                            run.ob(rule, ('alu', r['line']), False)
                            viol(r, 'ALU opcode', '%s (%s) is encoded with the opcode of "%s" [%s]' % (code, sp.op, other, ' '.join(i_)))
                    if opb in regs or (opb in ('81', '83') and dig and dig[0] == d):
                        run.ob(rule, ('alu', r['line']), True, {'opcode': code, 'instruction': ' '.join(i_)})
                if key in ISA.SHIFT and opb in ('C1', 'D1', 'D3') and dig:
                    ok = dig[0] == ISA.SHIFT[key]
                    run.ob(rule, ('shift', r['line']), ok, {'opcode': code, 'instruction': ' '.join(i_), '/digit': dig[0], 'ISA': ISA.SHIFT[key]})
                    if not ok:
                        viol(r, 'shift kind', '%s needs shift group /%d (%s) but uses /%d' % (code, ISA.SHIFT[key],
                             {'4': 'shl', '7': 'sar', '5': 'shr'}[str(ISA.SHIFT[key])], dig[0]))
                if sp.op in ('/', '%') and opb == 'F7' and dig:
                    want = ISA.F7['idiv'] if sp.signed else ISA.F7['div']
                    ok = dig[0] == want
                    run.ob(rule, ('div', r['line']), ok, {'opcode': code, 'instruction': ' '.join(i_), '/digit': dig[0], 'ISA': want})
                    if not ok:
                        viol(r, 'division kind', '%s is a %s division and needs F7 /%d but uses /%d' % (code, 'signed' if sp.signed else 'unsigned', want, dig[0]))
                    # the dividend extension: cqo/cdq (99) for signed, xor edx,edx for unsigned
                    ext_ok = (' 99 ' in txt.replace(';', ' ; ')) == bool(sp.signed)
                    run.ob(rule, ('div-ext', r['line']), ext_ok)
                    if not ext_ok:
                        viol(r, 'dividend extension', '%s must %s the dividend into rdx before F7 /%d' % (code, 'sign-extend (cqo/cdq)' if sp.signed else 'zero (xor edx,edx)', want))
        if sp.kind == 'overflow':
            # the instruction that computes the result must be one that sets OF / CF as the operation defines them
            FLAGSET = {'+': ({'03', '01'}, {0}), '-': ({'2B', '29'}, {5}), '*': ({'69', '6B'}, set())}
            regs_, digs_ = FLAGSET[sp.op]
            good = False
            for i_ in ins:
                toks_i = [t for t in i_ if re.fullmatch(r'[0-9A-F]{2}', t)]
                dig = [int(t[1]) for t in i_ if re.fullmatch(r'/[0-7]', t)]
                if not toks_i:
                    continue
                if toks_i[0] in regs_ or (toks_i[0] in ('81', '83') and dig and dig[0] in digs_):
                    good = True
                if sp.op == '*' and (toks_i[:2] == ['0F', 'AF'] or (toks_i[0] == 'F7' and dig and dig[0] in (4, 5))):
                    good = True
            run.ob(rule, ('ovf-insn', r['line']), good, {'opcode': code, 'replacement': r['rep'][:40]})
            if not good:
                viol(r, 'overflow flags', '%s must be computed by an instruction that sets the overflow / carry flag of the operation '
                     '(add, sub, imul, mul); [%s] does not (lea, shifts and moves leave OF unchanged), so the following BO/UBO tests a '
                     'stale flag' % (code, r['rep'][:40]))
        if sp.kind == 'unary' and sp.dom == 'i':
            for i_ in ins:
                if 'F7' in i_:
                    dig = [int(t[1]) for t in i_ if re.fullmatch(r'/[0-7]', t)]
                    ok = dig and dig[0] == ISA.F7['neg']
                    run.ob(rule, ('neg', r['line']), bool(ok))
                    if not ok:
                        viol(r, 'negation', '%s needs F7 /3 (neg)' % code)
        if sp.kind == 'ext' and toks and toks[0] in ('r',) and len(ins) == 1:
            i_ = ins[0]
            enc = ' '.join(t for t in i_ if re.fullmatch(r'[0-9A-F]{2}', t))
            want = (ISA.MOVSX if sp.signed else ISA.MOVZX)[sp.width]
            ok = enc == want
            # 32-bit zero extension must not set REX.W
            if ok and not sp.signed and sp.width == 32:
                ok = i_[0] != 'X'
            if ok and sp.signed and sp.width == 32:
                ok = i_[0] == 'X'
            run.ob(rule, ('ext', r['line']), ok, {'opcode': code, 'instruction': ' '.join(i_), 'ISA': want})
            if not ok:
                viol(r, 'extension opcode', '%s needs %s %s (%s) but is encoded as [%s]' % (code, 'movsx' if sp.signed else 'movzx/mov', want,
                                                                                          'sign' if sp.signed else 'zero', ' '.join(i_)))
    # (m) integer memory operands: size class and extension follow the operand the opcode reads
    #     The validator accepts memory of *any* integer type for an INT operand, so a class that also matches a narrower or a
    #     differently signed memory type is live (FP classes are pinned by the validator and are not judged here).
    modes = {r['code']: r['modes'] for r in descs}
    ANY_SIZE = {'MIR_BT', 'MIR_BF', 'MIR_BTS', 'MIR_BFS'}  # zero test: every extension of a narrow value keeps zero-ness
    EXTW = {'MIR_EXT8': 0, 'MIR_EXT16': 1, 'MIR_EXT32': 2, 'MIR_UEXT8': 0, 'MIR_UEXT16': 1, 'MIR_UEXT32': 2}
    for r in rows:
        code = r['code']
        toks = pat_tokens(r['pat'])
        if toks is None or code not in modes or '$' in toks or code in ANY_SIZE:
            continue
        sp = SPEC.parse(code[4:])
        ins = insns_of(r['rep'])
        enc = ' ' + ' ; '.join(' '.join(i_) for i_ in ins) + ' '
        for k, t in enumerate(toks):
            m = re.fullmatch(r'm([su]?)([0-3])', t)
            if not m or k >= len(modes[code]):
                continue
            if modes[code][k][0] != 'MIR_OP_INT':
                continue
            sign, size = m.group(1), int(m.group(2))
            if code == 'MIR_MOV':
                if k == 0:
                    # store: the stored width is the memory width
                    want = {0: ('Z', '88'), 1: ('Y', '89'), 2: ('Y', '89'), 3: ('X', '89')}[size]
                    imm = any(re.fullmatch(r'[iI][0-3]?\d?|J\d', x) for i_ in ins for x in i_)
                    ok = imm or any(i_[0] == want[0] or (size == 1 and i_[0] == '66') for i_ in ins) and (' %s ' % want[1]) in enc
                    if size == 1:
                        ok = ok and ' 66 ' in enc
                    run.ob(rule, ('mov-store', r['line']), ok, {'pattern': r['pat'], 'encoding': r['rep']})
                    if not ok:
                        viol(r, 'store width', 'a store to %d-byte memory must use the %d-byte mov form' % (1 << size, 1 << size))
                else:
                    if size == 3:
                        continue
                    ok = sign in ('s', 'u')
                    if ok:
                        wantenc = (ISA.MOVSX if sign == 's' else ISA.MOVZX)[8 << size]
                        ok = (' %s ' % wantenc) in enc and ((' X ' in enc or enc.startswith(' X ')) if not (sign == 'u' and size == 2) else not enc.startswith(' X '))
                    run.ob(rule, ('mov-load', r['line']), ok, {'pattern': r['pat'], 'encoding': r['rep'], 'class': t})
                    if not ok:
                        viol(r, 'load extension', 'a load from %s memory must %s-extend: class "%s" with encoding [%s] does not (a class '
                             'without s/u matches both signednesses)' % (t, {'s': 'sign', 'u': 'zero'}.get(sign, 'sign- or zero'), t, r['rep']))
                continue
            if code in EXTW:
                ok = size == EXTW[code]
                run.ob(rule, ('ext-mem', r['line']), ok, {'opcode': code, 'class': t})
                if not ok:
                    viol(r, 'extension source size', '%s extends the low %d bits; a memory source of class %s reads %d bits' % (code, 8 << EXTW[code], t, 8 << size))
                continue
            w = sp.width if (sp is not None and sp.dom == 'i' and sp.width in (32, 64)) else 64
            need = 3 if w == 64 else 2
            ok = size == need
            # a narrower source is acceptable only when its signedness is pinned and the conversion reads it with that signedness
            if not ok and size == 2 and need == 3 and sign == 's' and sp is not None and sp.signed is not False:
                ok = True
            run.ob(rule, ('int-mem', r['line'], k), ok, {'opcode': code, 'operand': k, 'class': t, 'operand width': w})
            if not ok:
                viol(r, 'integer memory operand', 'operand %d of %s is a %d-bit integer; the pattern also matches %s%d-bit memory, whose '
                     'upper bits the instruction [%s] does not extend the way a load would' % (k + 1, code, w, {'s': 'signed ', 'u': 'unsigned '}.get(sign, 'any '), 8 << size, r['rep']))
    # (o) operands rewritten at emission time: the pattern was selected for the value before the rewrite
    oi = gen.func('out_insn')
    rewrites = []
    for x in oi.walk():
        if x['k'] == 'IfStmt' and 'insn->code ==' in F.src(x['c'][0]):
            for y in F.walk(x['c'][1]):
                if y['k'] == 'BinaryOperator' and y['op'] == '=' and re.fullmatch(r'insn->ops\[\d\]\.u\.[ui]', F.src(F.strip(y['c'][0]))):
                    mcode = re.search(r'insn->code == (MIR_[A-Z0-9_]+)', F.src(x['c'][0]))
                    if mcode:
                        rewrites.append((mcode.group(1), int(F.src(F.strip(y['c'][0]))[10]), F.src(y['c'][1]), y['l']))
    for code_, k_, how, ln_ in rewrites:
        grows = '+' in how
        for r in rows:
            if r['code'] != code_:
                continue
            toks = pat_tokens(r['pat'])
            if toks is None or k_ >= len(toks) or not re.fullmatch(r'i[0-3]', toks[k_]):
                continue
            ok = not (grows and toks[k_] in ('i0', 'i1'))
            run.ob(rule, ('emit-rewrite', r['line']), ok, {'opcode': code_, 'operand': k_, 'pattern class': toks[k_], 'rewritten at emission as': how[:60]})
            if not ok:
                viol(r, 'immediate class vs emission-time rounding', 'out_insn replaces operand %d of %s by %s after the pattern was chosen for the '
                     'original value: a value that fits the %s-bit class %s (e.g. 120) no longer fits after the rounding (128) and is emitted '
                     'truncated' % (k_ + 1, code_, how[:50], {'i0': 8, 'i1': 16}[toks[k_]], toks[k_]))
    # (n) FP less-than forms are rewritten before selection
    tm = gen.func('target_machinize')
    swapped = {}
    for sw in R.find_switches(tm):
        for reg in R.switch_regions(tm, sw):
            asg = [x for x in R.region_nodes(reg['stmts']) if x['k'] == 'BinaryOperator' and x['op'] == '=' and F.src(F.strip(x['c'][0])).endswith('->code')
                   and F.strip(x['c'][1])['k'] == 'DeclRefExpr' and F.strip(x['c'][1]).get('dk') == 'enumc']
            for (nm, lo, hi) in reg['cases']:
                if nm and asg:
                    swapped[nm] = F.strip(asg[0]['c'][1])['n']
    for pre in ('F', 'D', 'LD'):
        for a, b in (('LT', 'GT'), ('LE', 'GE')):
            for form in ('%s%s', '%sB%s'):
                src, dst = 'MIR_' + form % (pre, a), 'MIR_' + form % (pre, b)
                ok = swapped.get(src) == dst
                run.ob(rule, ('nan-swap', src), ok, {'opcode': src, 'rewritten to': swapped.get(src), 'required': dst})
                if not ok:
                    run.violation(rule, tm, 'rewrite of %s' % src, 'target_machinize must rewrite %s into %s with swapped operands: the '
                                  'below/below-or-equal conditions after ucomis are also true for NaN operands' % (src, dst), line=tm.line)


def _char_cases(f):
    best = set()
    for sw in R.find_switches(f):
        chars = set()
        try:
            regs = R.switch_regions(f, sw)
        except F.AnalysisBroken:
            continue
        for r in regs:
            for (nm, lo, hi) in r['cases']:
                if lo is not None and 32 <= lo < 127:
                    for v in range(lo, (hi if hi is not None else lo) + 1):
                        chars.add(chr(v))
        if len(chars) > len(best):
            best = chars
    return best


def rf7i(run):
    rule = 'RF7i'
    run.rule(rule, 'the two readers of the replacement mini-language (size estimation get_max_insn_size and emission out_insn) handle the '
                   'same element characters, every element used in a patterns[] replacement string is handled by both, and every element '
                   'of a pattern string is handled by pattern_match_p')
    gen = run.tu('gen')
    g, rows = read_patterns(gen)
    a, b = _char_cases(gen.func('get_max_insn_size')), _char_cases(gen.func('out_insn'))
    if len(a) < 15 or len(b) < 15:
        raise F.AnalysisBroken('replacement readers not recognised')
    for ch in sorted(a | b):
        ok = ch in a and ch in b
        run.ob(rule, ('reader-pair', ch), ok, {'element': ch, 'get_max_insn_size': ch in a, 'out_insn': ch in b})
        if not ok:
            run.violation(rule, gen.func('out_insn' if ch in a else 'get_max_insn_size'), 'replacement element %s' % ch,
                          'replacement element "%s" is handled by %s but not by %s: the estimated size and the emitted code of an '
                          'instruction can differ' % (ch, 'get_max_insn_size' if ch in a else 'out_insn', 'out_insn' if ch in a else 'get_max_insn_size'),
                          line=1)
    hexd = set('0123456789ABCDEF')
    used = {}
    for r in rows:
        for insn in r['rep'].split(';'):
            for tok in insn.split():
                if all(c in hexd for c in tok):
                    continue
                used.setdefault(tok[0], r)
    for ch, r in sorted(used.items()):
        ok = ch in a and ch in b
        run.ob(rule, ('used', ch), ok, {'element': ch, 'first used in': '{%s, "%s"}' % (r['code'], r['rep'][:30])})
        if not ok:
            run.violation(rule, '<file scope>', 'replacement element %s' % ch, 'replacement "%s" of %s uses element "%s" which the readers do '
                          'not handle' % (r['rep'], r['code'], ch), file='mir-gen-x86_64.c', line=r['line'])
    pm = _char_cases(gen.func('pattern_match_p'))
    pused = {}
    for r in rows:
        for tok in r['pat'].split():
            pused.setdefault(tok[0], r)
    for ch, r in sorted(pused.items()):
        ok = ch in pm or ch == '$'
        run.ob(rule, ('pattern-used', ch), ok)
        if not ok:
            run.violation(rule, '<file scope>', 'pattern element %s' % ch, 'pattern "%s" of %s uses element "%s" which pattern_match_p does not '
                          'handle' % (r['pat'], r['code'], ch), file='mir-gen-x86_64.c', line=r['line'])


# ---------------------------------------------------------------------------------------------
# RF9m: ModRM/SIB selection of setup_mem against the ISA's special cases
# ---------------------------------------------------------------------------------------------

class SlotEval:
    """evaluates a small C function whose results leave through pointer parameters: integer locals, `*p = e`, if/else,
    compound assignment, calls of other functions of the unit (inlined).  Pointer parameters are bound to slot names."""

    def __init__(self, tu):
        from lib import enumflow as EF
        self.tu = tu
        self.preds = EF.Predicates(tu)
        self.out = {}
        self.depth = 0

    def ev(self, e, env):
        e0 = F.strip(e)
        if e0['k'] == 'DeclRefExpr' and isinstance(env.get(e0['n']), str):
            return env[e0['n']]
        return self.preds.eval(e, {k: v for k, v in env.items()}, frozenset())

    def call(self, fname, args, env):
        g = self.tu.funcs.get(fname)
        if g is None or g.body is None:
            return
        if self.depth > 5:
            raise F.AnalysisBroken('SlotEval: call depth exceeded at %s' % fname)
        env2 = {}
        for prm, a in zip(g.params, args):
            v = self.ev(a, env)
            if v is not None:
                env2[prm['n']] = v
        self.depth += 1
        try:
            self.run(g.body, env2)
        finally:
            self.depth -= 1

    def run(self, s, env):
        """-> True if control falls through"""
        if s is None:
            return True
        k = s['k']
        if k == 'CompoundStmt':
            for x in F.kids(s):
                if not self.run(x, env):
                    return False
            return True
        if k == 'IfStmt':
            c = self.ev(s['c'][0], env)
            if c is None:
                raise F.AnalysisBroken('SlotEval: condition %s not evaluable' % F.src(s['c'][0])[:60])
            c = bool(c) if not isinstance(c, str) else True
            return self.run(s['c'][1], env) if c else (self.run(s['c'][2], env) if s['c'][2] is not None else True)
        if k == 'ReturnStmt':
            return False
        if k == 'DeclStmt':
            for d in s['decls']:
                if d.get('init') is not None:
                    v = self.ev(d['init'], env)
                    if v is not None:
                        env[d['n']] = v
            return True
        if k in F.CASTS or k == 'ParenExpr':
            return self.run(s['c'][0], env)
        if k == 'BinaryOperator' and s['op'] == '=':
            l = F.strip(s['c'][0])
            v = self.ev(s['c'][1], env)
            if l['k'] == 'UnaryOperator' and l['op'] == '*':
                p = self.ev(l['c'][0], env)
                if not isinstance(p, str):
                    raise F.AnalysisBroken('SlotEval: store through %s which is not a bound out-parameter' % F.src(l)[:40])
                self.out[p] = v
            elif l['k'] == 'DeclRefExpr':
                if v is None:
                    env.pop(l['n'], None)
                else:
                    env[l['n']] = v
            return True
        if k == 'CompoundAssignOperator' and s['op'] in ('+=', '-='):
            l = F.strip(s['c'][0])
            v = self.ev(s['c'][1], env)
            if l['k'] == 'DeclRefExpr' and isinstance(env.get(l['n']), int) and isinstance(v, int):
                env[l['n']] = env[l['n']] + (v if s['op'] == '+=' else -v)
            else:
                raise F.AnalysisBroken('SlotEval: compound assignment %s not evaluable' % F.src(s)[:50])
            return True
        if k == 'CallExpr':
            c = s.get('callee')
            if c and c in self.tu.funcs and self.tu.funcs[c].body is not None and c not in ('gen_assert', 'assert'):
                self.call(c, F.call_args(s), env)
            return True
        if k in ('NullStmt',):
            return True
        if k in ('ForStmt', 'WhileStmt', 'DoStmt', 'SwitchStmt', 'GotoStmt'):
            raise F.AnalysisBroken('SlotEval: %s not modelled' % k)
        return True


def rf9m(run):
    rule = 'RF9m'
    run.rule(rule, 'setup_mem: for every base register (or none) x index register (or none) x displacement class {0, 8-bit, 32-bit} x '
                   'scale, the ModRM/SIB/REX fields it selects decode, by the ISA rules (rm=4 -> SIB; mod=0 with rm=5 -> RIP-relative; '
                   'SIB base=5 with mod=0 -> no base + disp32; SIB index=4 without REX.X -> no index), to exactly the requested base, '
                   'index, scale and displacement; the displacement slot that mod announces is the one that is filled')
    gen = run.tu('gen')
    f = gen.func('setup_mem')
    run.functions_analysed.add(('gen', 'setup_mem'))
    regs = dict(gen.enum_by_member('AX_HARD_REG')[1])
    names = ['AX', 'CX', 'DX', 'BX', 'SP', 'BP', 'SI', 'DI', 'R8', 'R9', 'R10', 'R11', 'R12', 'R13', 'R14', 'R15']
    hw = {}
    for i, nme in enumerate(names):
        v = regs.get(nme + '_HARD_REG')
        if v != i:
            raise F.AnalysisBroken('hard register %s has number %s, the rule assumes the hardware numbering %d' % (nme, v, i))
        hw[nme] = i
    NONE = 4294967295
    pn = [p['n'] for p in f.params]
    want_params = ['mem', 'mod', 'rm', 'scale', 'base', 'rex_b', 'index', 'rex_x', 'disp8', 'disp32']
    if pn != want_params:
        raise F.AnalysisBroken('setup_mem parameters are %s' % pn)
    n = 0
    first = None
    for bname, b in [('none', NONE)] + list(hw.items()):
        for iname, ix in [('none', NONE)] + [(k_, v_) for k_, v_ in hw.items() if k_ != 'SP']:
            for dname, d in (('0', 0), ('disp8', 16), ('disp32', 1000)):
                for sc in (1, 8):
                    se = SlotEval(gen)
                    env = {'mem.base': b, 'mem.index': ix, 'mem.disp': d, 'mem.scale': sc}
                    for p in want_params[1:]:
                        env[p] = 'slot:' + p
                    se.run(f.body, env)
                    o = se.out
                    mod, rm = o.get('slot:mod'), o.get('slot:rm')
                    rex_b, rex_x = o.get('slot:rex_b') or 0, o.get('slot:rex_x') or 0
                    problems = []
                    dec_base = dec_index = None
                    dec_disp = None
                    if rm is None:
                        problems.append('rm not set')
                    elif rm != 4:
                        if (mod or 0) == 0 and rm == 5:
                            dec_base, dec_disp = 'RIP', 'disp32'
                        else:
                            dec_base = rm + 8 * rex_b
                            dec_disp = {0: None, 1: 'disp8', 2: 'disp32'}.get(mod or 0)
                    else:
                        sb, sx = o.get('slot:base'), o.get('slot:index')
                        if sb is None or sx is None:
                            problems.append('SIB byte announced (rm=4) but base/index not set')
                        else:
                            idx = sx + 8 * rex_x
                            dec_index = None if idx == 4 else idx
                            if sb == 5 and (mod or 0) == 0:
                                dec_base, dec_disp = None, 'disp32'
                            else:
                                dec_base = sb + 8 * rex_b
                                dec_disp = {0: None, 1: 'disp8', 2: 'disp32'}.get(mod or 0)
                            if dec_index is not None:
                                wsc = {1: 0, 2: 1, 4: 2, 8: 3}[sc]
                                if o.get('slot:scale') != wsc:
                                    problems.append('scale field %s for scale %d' % (o.get('slot:scale'), sc))
                    if not problems:
                        if dec_base != (None if b == NONE else b):
                            problems.append('decodes to base %s' % ('none' if dec_base is None else dec_base if isinstance(dec_base, str) else names[dec_base]))
                        if dec_index != (None if ix == NONE else ix):
                            problems.append('decodes to index %s' % ('none' if dec_index is None else names[dec_index]))
                        if dec_disp is None and d != 0:
                            problems.append('no displacement encoded for %d' % d)
                        if dec_disp == 'disp8' and not (-128 <= d <= 127):
                            problems.append('8-bit displacement for %d' % d)
                        if dec_disp is not None and ('slot:' + dec_disp) not in o:
                            problems.append('mod announces %s but that slot is not filled' % dec_disp)
                        if dec_disp != 'disp8' and 'slot:disp8' in o or dec_disp != 'disp32' and 'slot:disp32' in o:
                            problems.append('a displacement slot is filled that mod does not announce')
                    n += 1
                    ok = not problems
                    run.ob(rule, (bname, iname, dname, sc), ok, {'base': bname, 'index': iname, 'disp': dname, 'scale': sc,
                                                                'mod': mod, 'rm': rm, 'problems': problems})
                    if not ok and first is None:
                        first = (bname, iname, dname, sc, mod, rm, problems)
    if first:
        bname, iname, dname, sc, mod, rm, problems = first
        run.violation(rule, f, 'encoding of (%s,%s,%s) disp %s' % (bname, iname, sc, dname),
                      'setup_mem encodes base=%s index=%s scale=%d displacement=%s as mod=%s rm=%s, which %s: the instruction addresses '
                      'the wrong location (and may swallow following code bytes as a displacement)'
                      % (bname, iname, sc, dname, mod, rm, '; '.join(problems)), line=f.line)
    run.min_instances(rule, 1000)


# ---------------------------------------------------------------------------------------------
# RF63: conversions lowered to a builtin call convert in one step
# ---------------------------------------------------------------------------------------------

CONV_C = {'I': ('int', 64, True), 'UI': ('int', 64, False), 'F': ('float', 32, None), 'D': ('float', 64, None), 'LD': ('float', 128, None)}


def rf63(run):
    import re
    from lib import regions as R
    rule = 'RF63'
    run.rule(rule, 'x86-64 target_machinize: a conversion opcode lowered to a builtin call is passed unchanged to get_builtin, which has a case '
                   'for it; the registered C helper takes the source C type of the opcode (uint64_t for UI2x, long double for LD2x) and '
                   'returns `(result type) argument` with no intermediate type; the call writes the insn\'s own result operand (a conversion '
                   'through a wider intermediate type rounds twice)')
    tu = run.tu('gen')
    m = tu.func('target_machinize')
    g = tu.func('get_builtin')
    run.functions_analysed.update({('gen', m.name), ('gen', g.name)})
    CONV = re.compile(r'MIR_(UI|I|F|D|LD)2(I|F|D|LD)$')
    msw = [s_ for s_ in R.find_switches(m) if F.src(s_['c'][0]) in ('code', 'insn->code')]
    gsw = R.find_switches(g)
    if not msw or not gsw:
        raise F.AnalysisBroken('target_machinize / get_builtin: switch on the insn code not found')
    gcases = {}
    for r in R.switch_regions(g, gsw[0]):
        for c in r['cases']:
            if c[0]:
                gcases[c[0]] = r
    n = 0
    for r in R.switch_regions(m, max(msw, key=lambda s_: len(R.switch_regions(m, s_)))):
        calls = [x for x in R.region_nodes(r['stmts']) if x['k'] == 'CallExpr' and x.get('callee') == 'get_builtin']
        labels = [c[0] for c in r['cases'] if c[0] and CONV.match(c[0])]
        if not calls or not labels:
            continue
        # (b) the opcode and the result operand reach the builtin call unchanged
        writes = []
        for x in R.region_nodes(r['stmts']):
            if x['k'] in ('BinaryOperator', 'CompoundAssignOperator') and x['op'] == '=' and F.src(F.strip(x['c'][0])) in ('code', 'res_reg_op', 'insn->ops[0]'):
                writes.append(x)
        a1 = F.src(F.strip(F.call_args(calls[0])[1]))
        resinit = [d for x in R.region_nodes(r['stmts']) if x['k'] == 'DeclStmt' for d in x['decls'] if d['n'] == 'res_reg_op']
        res_ok = bool(resinit) and resinit[0].get('init') is not None and F.src(F.strip(resinit[0]['init'])) == 'insn->ops[0]'
        n += 1
        ok = not writes and a1 in ('code', 'insn->code') and res_ok
        run.ob(rule, ('lowering',), ok, {'codes': labels, 'get_builtin argument': a1, 'result operand': 'insn->ops[0]' if res_ok else '?',
                                        'rewrites': [F.src(w)[:60] for w in writes]})
        if not ok:
            run.violation(rule, m, 'builtin lowering of %s' % '/'.join(labels), 'the lowering of %s %s: the builtin that runs is not the one-step '
                          'conversion of the opcode (an intermediate type rounds twice, e.g. u64 -> double -> float)'
                          % ('/'.join(labels), ('rewrites ' + '; '.join(F.src(w)[:50] for w in writes)) if writes else
                             'passes `%s` to get_builtin / does not write insn->ops[0] directly' % a1), line=(writes[0] if writes else calls[0])['l'])
        for lab in labels:
            src_k, dst_k = CONV.match(lab).groups()
            n += 1
            gr = gcases.get(lab)
            if gr is None:
                run.ob(rule, ('helper', lab), False)
                run.violation(rule, g, 'builtin of %s' % lab, '%s is lowered to a builtin call but get_builtin has no case for it (NDEBUG: the '
                              'items stay NULL)' % lab, line=g.line)
                continue
            helpers = [F.strip(F.call_args(x)[-1]) for x in R.region_nodes(gr['stmts']) if x['k'] == 'CallExpr' and x.get('callee') == '_MIR_builtin_func']
            if len(helpers) != 1 or helpers[0]['k'] != 'DeclRefExpr' or helpers[0]['n'] not in tu.funcs:
                raise F.AnalysisBroken('get_builtin: helper of %s not identified' % lab)
            h = tu.funcs[helpers[0]['n']]
            run.functions_analysed.add(('gen', h.name))
            pt = tu.type(h.params[0]['t']) if len(h.params) == 1 else None
            rt = tu.type(h.ret)
            desc = lambda t: None if t is None else (t.kind, t.w, t.signed if t.kind == 'int' else None)
            want_p, want_r = CONV_C[src_k], CONV_C[dst_k]
            rets = [x for x in h.walk() if x['k'] == 'ReturnStmt']
            casts = []
            direct = False
            if not (len(rets) == 1 and len(F.kids(h.body)) == 1):
                raise F.AnalysisBroken('builtin helper %s of %s is not a single `return (T) arg;`: conversion path not evaluated' % (h.name, lab))
            if len(rets) == 1 and len(F.kids(h.body)) == 1:
                e = rets[0]['c'][0]
                while e['k'] in F.CASTS or e['k'] == 'ParenExpr':
                    if e['k'] in F.CASTS and e.get('ck') not in ('LValueToRValue', 'NoOp'):
                        casts.append(desc(tu.type(e)))
                    e = e['c'][0]
                direct = e['k'] == 'DeclRefExpr' and e.get('dk') == 'param'
            ok = desc(pt) == want_p and desc(rt) == want_r and direct and all(c == want_r for c in casts)
            run.ob(rule, ('helper', lab), ok, {'opcode': lab, 'helper': h.name, 'parameter': pt.s if pt else None, 'returns': rt.s if rt else None,
                                              'conversions in the body': casts})
            if not ok:
                run.violation(rule, h, 'helper of %s' % lab, 'the builtin %s registered for %s takes %s, returns %s and converts through %s: '
                              'the opcode converts %s directly to %s' % (h.name, lab, pt.s if pt else '?', rt.s if rt else '?', casts or 'nothing recognisable',
                                                                         want_p, want_r), line=h.line)
    if n == 0:
        raise F.AnalysisBroken('target_machinize: no conversion lowered to a builtin found')
    return n


# ---------------------------------------------------------------------------------------------
# RF64: range predicates see the un-narrowed value
# ---------------------------------------------------------------------------------------------

def rf64(run):
    import re
    rule = 'RF64'
    run.rule(rule, 'x86-64 target: every test intN_p / uintN_p (does the value fit the N-bit field of the encoding?) is applied to a value '
                   'wider than N bits: an operand that has already been converted to an N-bit (or narrower) type makes the test vacuous '
                   'and a displacement / call offset that does not fit is emitted truncated')
    tu = run.tu('gen')
    PRED = re.compile(r'u?int(8|16|32)_p$')
    n = 0
    for f in tu.func_list:
        if not f.file.endswith('mir-gen-x86_64.c'):
            continue
        for x in f.walk():
            if x['k'] != 'CallExpr' or not PRED.match(x.get('callee') or ''):
                continue
            bits = int(PRED.match(x['callee']).group(1))
            a = F.call_args(x)[0]
            while a['k'] == 'ParenExpr' or (a['k'] == 'ImplicitCastExpr'):
                a = a['c'][0]
            t = tu.type(a)
            if t is None or t.kind not in ('int', 'enum', 'bool'):
                raise F.AnalysisBroken('%s: operand type of %s not integral' % (f.name, F.src(x)[:50]))
            run.functions_analysed.add(('gen', f.name))
            n += 1
            w = t.w or 0
            if a['k'] == 'DeclRefExpr' and a.get('dk') == 'local' and w > bits:
                # every definition of the local: an explicit cast to a type of at most N bits narrows it before the test
                defs = [d['init'] for y in f.walk() if y['k'] == 'DeclStmt' for d in y['decls'] if d.get('d') == a.get('d') and d.get('init') is not None]
                defs += [y['c'][1] for y in f.walk() if y['k'] == 'BinaryOperator' and y['op'] == '=' and F.strip(y['c'][0])['k'] == 'DeclRefExpr'
                         and F.strip(y['c'][0]).get('d') == a.get('d')]
                for dfn in defs:
                    e = dfn
                    while e['k'] == 'ParenExpr' or e['k'] == 'ImplicitCastExpr':
                        e = e['c'][0]
                    if e['k'] == 'CStyleCastExpr':
                        ct = tu.type(e)
                        if ct is not None and ct.kind == 'int' and (ct.w or 64) <= bits:
                            w = ct.w
                            t = ct
            ok = w > bits
            run.ob(rule, (f.name, x['l']), ok, {'site': '%s:%d %s' % (f.relfile(), x['l'], f.name), 'test': F.src(x)[:60], 'operand type': t.s})
            if not ok:
                run.violation(rule, f, '%s on a %d-bit value' % (x['callee'], w), '%s is applied to `%s` of type %s: the value was already '
                              'narrowed to %d bits, so the test always succeeds and a value outside the %d-bit field is encoded truncated '
                              '(for a call offset: the patched call jumps to a wrong address)' % (x['callee'], F.src(a)[:50], t.s, w, bits),
                              line=x['l'])
    return n


# ---------------------------------------------------------------------------------------------
# RF77: direct-call patching uses the address of existing machine code only
# ---------------------------------------------------------------------------------------------

def rf77(run):
    from rf_proto import dominating_conditions
    rule = 'RF77'
    run.rule(rule, 'x86-64 target_change_to_direct_calls: the new target of a recorded call is the callee\'s machine_code; a function that has '
                   'not been generated yet has none (NULL).  Every _MIR_change_code in the function is dominated by a test that the '
                   'address taken from machine_code is not NULL')
    tu = run.tu('gen')
    f = tu.func('target_change_to_direct_calls')
    run.functions_analysed.add(('gen', f.name))
    cfg = f.cfg
    addrs = [d['n'] for x in f.walk() if x['k'] == 'DeclStmt' for d in x['decls'] if d.get('init') is not None and F.src(F.strip(d['init'])).endswith('->machine_code')]
    if not addrs:
        raise F.AnalysisBroken('target_change_to_direct_calls: the variable holding machine_code was not found')
    a = addrs[0]
    n = 0
    for x in f.walk():
        if x['k'] == 'CallExpr' and x.get('callee') == '_MIR_change_code':
            conds = dominating_conditions(cfg, cfg.block_of(x), selective=True)
            ok = False
            for c, t in conds:
                cc = c.replace(' ', '').strip('()')
                if (cc in ('%s==0' % a, '%s==NULL' % a, '!%s' % a) and not t) or (cc in ('%s!=0' % a, '%s!=NULL' % a, a) and t):
                    ok = True
            n += 1
            run.ob(rule, (x['l'],), ok, {'site': '%s:%d' % (f.relfile(), x['l']), 'patch': F.src(x)[:70], 'address variable': a})
            if not ok:
                run.violation(rule, f, 'patch with an unchecked address', '`%s` can run with %s == NULL (the callee has no machine code yet): the call '
                              'is redirected to address 0 when the value passes the rel32 range test or for the indirect form' % (F.src(x)[:60], a),
                              line=x['l'])
    if n == 0:
        raise F.AnalysisBroken('target_change_to_direct_calls: no _MIR_change_code call')
    return n


# ---------------------------------------------------------------------------------------------
# RF101: the flag-clobbering form of `mov r, 0` is not chosen while overflow flags are live
# ---------------------------------------------------------------------------------------------

def rf101(run):
    from lib import enumflow as EF
    rule = 'RF101'
    run.rule(rule, 'x86-64 pattern_match_p: the operand class `z` selects `xor r,r` for `mov r, 0`; xor rewrites OF/CF, and MIR allows '
                   'register moves between an overflow producer and its BO/BNO/UBO/UBNO.  The `z` case scans the following '
                   'instructions and rejects the pattern, by evaluation over the four branch opcodes, when such a branch is reached '
                   'through moves only')
    tu = run.tu('gen')
    f = tu.func('pattern_match_p')
    run.functions_analysed.add(('gen', f.name))
    sws = [s_ for s_ in R.find_switches(f)]
    reg = None
    for sw in sws:
        for r in R.switch_regions(f, sw):
            if any(lo == ord('z') for (nm, lo, hi) in r['cases'] if lo is not None):
                reg = r
    if reg is None:
        raise F.AnalysisBroken('pattern_match_p: case \'z\' not found')
    preds = EF.Predicates(tu)
    codes = dict(tu.enum('MIR_insn_code_t'))
    loops = [x for st in reg['stmts'] for x in F.walk(st) if x['k'] == 'ForStmt']
    n = 0
    for nm in ('MIR_BO', 'MIR_BNO', 'MIR_UBO', 'MIR_UBNO'):
        rejected = False
        for l in loops:
            for x in F.walk(l['c'][3]):
                if x['k'] == 'IfStmt' and any(y['k'] == 'ReturnStmt' and F.kids(y) and F.const_value(F.kids(y)[0]) == 0 for y in F.walk(x['c'][1])):
                    keys = sorted({F.src(y) for y in F.walk(x['c'][0]) if y['k'] == 'MemberExpr' and y['n'] == 'code'})
                    v = preds.eval(x['c'][0], {k_: codes[nm] for k_ in keys}, frozenset())
                    if v:
                        rejected = True
        n += 1
        run.ob(rule, (nm,), rejected, {'branch': nm, 'xor form rejected when it follows through moves': rejected})
        if not rejected:
            run.violation(rule, f, 'xor in front of %s' % nm, 'the `z` operand class (mov r, 0 emitted as xor) is accepted although a %s can follow '
                          'through register moves: `addo r, a, b; mov r2, 0; bo L` loses the overflow flag in generated code' % nm,
                          line=reg['stmts'][0]['l'] if reg['stmts'] else f.line)
    return n


# ---------------------------------------------------------------------------------------------
# RF104: branch patch slots of a generated basic block are paired with successors one to one
# ---------------------------------------------------------------------------------------------

def rf104(run):
    from rf_proto import dominating_conditions
    rule = 'RF104'
    run.rule(rule, 'x86-64 lazy basic-block generation, target_setup_succ_bb_version_data: label references of the block and successor '
                   'versions are paired by position, which is meaningful only when there is exactly one reference per successor.  '
                   'The pairing loop runs only under equality of the two counts (SWITCH, the two jumps of FP BNE and LADDR add '
                   'references of their own; with unequal counts the branches stay routed through the block thunks)')
    tu = run.tu('gen')
    f = tu.func('target_setup_succ_bb_version_data')
    run.functions_analysed.add(('gen', f.name))
    cfg = f.cfg
    stores = [x for x in f.walk() if x['k'] == 'BinaryOperator' and x['op'] == '=' and F.src(F.strip(x['c'][0])).endswith('->branch_ref')]
    if not stores:
        raise F.AnalysisBroken('target_setup_succ_bb_version_data: the pairing store was not found')
    n = 0
    for x in stores:
        conds = dominating_conditions(cfg, cfg.block_of(x), selective=True)
        ok = False
        for c, t in conds:
            cc = c.replace(' ', '')
            if ('label_refs' in cc and 'succ_bb_versions' in cc) or ('nrefs' in cc and 'nsuccs' in cc):
                if ('!=' in cc and not t) or ('==' in cc and t):
                    ok = True
        n += 1
        run.ob(rule, (x['l'],), ok, {'site': '%s:%d' % (f.relfile(), x['l']), 'conditions': [c for c, t in conds][:4]})
        if not ok:
            run.violation(rule, f, 'positional pairing with unequal counts', '`%s` pairs label references with successor versions by position '
                          'without the two counts being equal: a LADDR or the extra jump of an FP branch shifts the positions, and when a '
                          'successor is generated later the wrong jump of the block is patched to it' % F.src(x)[:60], line=x['l'])
    return n


# ---------------------------------------------------------------------------------------------
# RF110: opcodes that machinize rewrites away are not produced again behind it
# ---------------------------------------------------------------------------------------------

def rf110(run):
    from lib import regions as R
    rule = 'RF110'
    run.rule(rule, 'x86-64: target_machinize rewrites every FP less / less-or-equal comparison and branch into the swapped greater form, '
                   'because the `setb/setbe` and `jb/jbe` patterns of the less forms are true for unordered operands.  The only table that '
                   'changes opcodes behind machinize, commutative_insn_code (used by the combiner after register allocation), therefore '
                   'never returns an opcode that machinize rewrites away')
    tu = run.tu('gen')
    m = tu.func('target_machinize')
    c = tu.func('commutative_insn_code')
    run.functions_analysed.update({('gen', m.name), ('gen', c.name)})
    codes = dict(tu.enum('MIR_insn_code_t'))
    elim = {}
    for sw in R.find_switches(m):
        try:
            regs = R.switch_regions(m, sw)
        except F.AnalysisBroken:
            continue
        for r in regs:
            names = [cn for cn, lo, hi in r['cases'] if cn in codes]
            if not names or len(names) != 1:
                continue
            assigned = None
            swaps = set()
            for x in R.region_nodes(r['stmts']):
                if x['k'] == 'BinaryOperator' and x['op'] == '=':
                    l = F.src(F.strip(x['c'][0])).replace(' ', '')
                    rr = F.strip(x['c'][1])
                    if l == 'insn->code' and rr['k'] == 'DeclRefExpr' and rr['n'] in codes:
                        assigned = rr['n']
                    if l in ('insn->ops[1]', 'insn->ops[2]'):
                        swaps.add(l)
            if assigned and assigned != names[0] and len(swaps) == 2:
                elim[names[0]] = assigned
    if len(elim) < 6:
        raise F.AnalysisBroken('target_machinize: only %d swapped FP comparisons found' % len(elim))
    sws = R.find_switches(c)
    if not sws:
        raise F.AnalysisBroken('commutative_insn_code: no switch')
    n = 0
    for r in R.switch_regions(c, sws[0]):
        rets = [x for x in R.region_nodes(r['stmts']) if x['k'] == 'ReturnStmt' and x.get('c') and x['c'][0] is not None]
        for x in rets:
            e = F.strip(x['c'][0])
            outs = [e['n']] if e['k'] == 'DeclRefExpr' and e['n'] in codes else [cn for cn, lo, hi in r['cases']] if e['k'] == 'DeclRefExpr' else []
            for o in outs:
                n += 1
                ok = o not in elim
                if not ok or n % 16 == 1:
                    run.ob(rule, (r['line'], o), ok, {'cases': [cn for cn, lo, hi in r['cases']][:4], 'returns': o})
                else:
                    run.ob(rule, (r['line'], o), ok)
                if not ok:
                    run.violation(rule, c, 'combiner produces %s' % o, 'commutative_insn_code maps %s to %s, an opcode target_machinize replaces by %s with swapped '
                                  'operands because its x86 pattern is true for unordered operands: the combiner, which runs after machinize, '
                                  'can swap the operands back to fold a memory operand, and the comparison yields 1 for a NaN at -O1 and above' %
                                  ('/'.join(cn for cn, lo, hi in r['cases'])[:40], o, elim[o]), line=x['l'])
    if n < 40:
        raise F.AnalysisBroken('commutative_insn_code: only %d mapped opcodes' % n)
    return n


# ---------------------------------------------------------------------------------------------
# RF124: lazy basic-block generation: one address stands for a label, for good
# ---------------------------------------------------------------------------------------------

def rf124(run):
    rule = 'RF124'
    run.rule(rule, 'lazy basic-block generation: label values reach the program through lref data (filled by create_bb_stubs, possibly as a '
                   'difference of two labels) and through LADDR (bb_version_generator).  Both take the value from the same field of the '
                   'block version, and that field is assigned in one function only (get_bb_version, the thunk).  A field that is later '
                   'replaced by the machine-code address gives `laddr` another value than the one the differences were computed from, and '
                   '`jmpi base + diff` leaves the function')
    gen = run.tu('gen')
    n = 0
    fields = {}
    # (b) lref data
    f = gen.func('create_bb_stubs')
    run.functions_analysed.add(('gen', f.name))
    stores = [x for x in f.walk() if x['k'] == 'BinaryOperator' and x['op'] == '=' and 'load_addr' in F.src(x['c'][0])]
    if not stores:
        raise F.AnalysisBroken('create_bb_stubs: store into lref->load_addr not found')

    def field_of(fn, var):
        """the bb_version field a local gets its value from: `v = …->FIELD` or the out parameter of get_bb_version (its `->addr`)"""
        got = set()
        for x in fn.walk():
            if x['k'] == 'BinaryOperator' and x['op'] == '=' and F.src(F.strip(x['c'][0])) == var:
                r = F.strip(x['c'][1])
                ms = [y for y in F.walk(r) if y['k'] == 'MemberExpr' and 'bb_version' in gen.type(y['c'][0]).s]
                for y in ms:
                    got.add(y['n'])
            if x['k'] == 'CallExpr' and x.get('callee') == 'get_bb_version':
                for a in F.call_args(x):
                    a0 = F.strip(a)
                    if a0['k'] == 'UnaryOperator' and a0['op'] == '&' and F.src(F.strip(a0['c'][0])) == var:
                        got.add('<out parameter>')
        if got - {'<out parameter>'}:
            return got - {'<out parameter>'}
        return {'addr'} if got else set()
    names = {y['n'] for y in F.walk(stores[0]['c'][1]) if y['k'] == 'DeclRefExpr' and y.get('dk') == 'local'}
    fl = set()
    for v in names:
        fl |= field_of(f, v)
    fields['lref data (create_bb_stubs)'] = fl
    # (c) LADDR
    g = gen.func('bb_version_generator') if 'bb_version_generator' in gen.funcs else None
    cands = [h for h in gen.func_list if h.body is not None and any(y['k'] == 'DeclRefExpr' and y['n'] == 'MIR_LADDR' for y in h.walk())
             and any(y['k'] == 'CallExpr' and y.get('callee') == 'get_bb_version' for y in h.walk())]
    if not cands:
        raise F.AnalysisBroken('RF124: the LADDR case of lazy bb generation was not found')
    g = cands[0]
    run.functions_analysed.add(('gen', g.name))
    ifs = [x for x in g.walk() if x['k'] == 'IfStmt' and 'MIR_LADDR' in F.src(x['c'][0]) and len(x['c']) > 2 and x['c'][2] is not None]
    if not ifs:
        raise F.AnalysisBroken('RF124: the LADDR branch was not found in %s' % g.name)
    br = ifs[0]['c'][2] if '!=' in F.src(ifs[0]['c'][0]) else ifs[0]['c'][1]
    pushes = [x for x in F.walk(br) if x['k'] == 'CallExpr' and (x.get('callee') or '').endswith('push') and 'succ_bb_addrs' in F.src(F.call_args(x)[0])]
    if not pushes:
        raise F.AnalysisBroken('RF124: the address handed to the LADDR translation was not found')
    a1 = F.strip(F.call_args(pushes[0])[1])
    if a1['k'] == 'MemberExpr':
        fields['LADDR (%s)' % g.name] = {a1['n']}
    else:
        fields['LADDR (%s)' % g.name] = field_of(g, F.src(a1))
    # writers of the fields
    writers = {}
    for h in gen.func_list:
        if h.body is None or not h.file.startswith('/repo'):
            continue
        for x in h.walk():
            if x['k'] == 'BinaryOperator' and x['op'] == '=':
                st = [x]
                # chained assignment a = b->f = c->g = v
                while st:
                    y = st.pop()
                    l = F.strip(y['c'][0])
                    if l['k'] == 'MemberExpr' and 'bb_version' in gen.type(l['c'][0]).s:
                        writers.setdefault(l['n'], set()).add(h.name)
                    r = F.strip(y['c'][1])
                    if r['k'] == 'BinaryOperator' and r['op'] == '=':
                        st.append(r)
    allf = set().union(*fields.values()) if fields else set()
    same = len(allf) == 1
    for site, fl in sorted(fields.items()):
        n += 1
        fld = sorted(fl)[0] if fl else '?'
        ws = sorted(writers.get(fld, ()))
        ok = same and len(fl) == 1 and len(ws) == 1
        run.ob(rule, (site,), ok, {'site': site, 'field': sorted(fl), 'assigned in': ws})
        if not ok:
            fn_ = f if 'lref' in site else g
            run.violation(rule, fn_, 'label value from a field that changes', 'the label value used for %s comes from bb_version field(s) %s, assigned in %s%s: '
                          'once a block is generated its `laddr` value is the machine-code address while lref differences were computed from '
                          'thunk addresses, so `jmpi laddr(L0) + (L1 - L0)` jumps to an address that is not a block (lazy bb gen hangs or '
                          'crashes, the other interfaces work)' % (site, sorted(fl), ws, '' if same else '; the two sites use different fields'),
                          line=fn_.line)
    return n


# ---------------------------------------------------------------------------------------------
# RF140: scratch hard registers of a pattern are declared as early clobbers
# ---------------------------------------------------------------------------------------------

def rf140(run):
    from lib import printexec as PE
    rule = 'RF140'
    run.rule(rule, 'x86-64: the hard registers a replacement string writes on its own — `hN` / `HN` fields, the implicit rdx:rax of '
                   'cqo / F7-group multiply and divide, `B8+r imm32` — other than registers the pattern constrains an operand to, are '
                   'reported by target_get_early_clobbered_hard_regs for the opcode (evaluated abstractly for every opcode).  The register '
                   'allocator keeps a live value in rdx across `ldeq` otherwise, and the instruction overwrites it')
    gen = run.tu('gen')
    f = gen.func('target_get_early_clobbered_hard_regs')
    run.functions_analysed.add(('gen', f.name))
    g, rows = read_patterns(gen)
    codes = dict(gen.enum('MIR_insn_code_t'))
    hregs = dict(gen.enum_by_member('AX_HARD_REG')[1])
    ax, cx, dx = hregs['AX_HARD_REG'], hregs['CX_HARD_REG'], hregs['DX_HARD_REG']
    names = {ax: 'rax', cx: 'rcx', dx: 'rdx'}
    nonvar = 0xffffffff
    clob = {}

    def clobbers(code):
        if code in clob:
            return clob[code]
        ex = PE.PrintExec(gen, {}, {}, {})
        env = {'insn->code': codes[code], 'code': codes[code]}
        try:
            ex.run(f.body, env)
        except F.AnalysisBroken as e_:
            raise F.AnalysisBroken('target_get_early_clobbered_hard_regs not executable for %s: %s' % (code, e_))
        out = set()
        for k_ in ('*hr1', '*hr2', 'hr1[0]', 'hr2[0]'):
            v = env.get(k_)
            if isinstance(v, int) and v in names:
                out.add(v)
        clob[code] = out
        return out
    n = 0
    first = {}
    for r in rows:
        code = r['code']
        if code not in codes:
            continue
        toks = pat_tokens(r['pat'])
        if toks is None:
            continue
        constrained = {int(t[1:]) for t in toks if t.startswith('h')}
        written = set()
        for ins in insns_of(r['rep']):
            body = [t for t in ins if t not in ('X', 'Y', 'Z')]
            for t in body:
                m = re.fullmatch(r'[hH]([0-9A-Fa-f]+)', t)
                if m:
                    written.add(int(m.group(1), 16))
            if body and body[0] == '99':
                written.add(dx)
            if body and re.fullmatch(r'B[89A-F]', body[0]) and len(body) > 1 and not body[1].startswith('+'):
                written.add(int(body[0][1], 16) - 8)
            if len(body) > 1 and body[0] == 'F7' and body[1] in ('/4', '/5', '/6', '/7'):
                written |= {ax, dx}
        written &= {ax, cx, dx}
        need = written - constrained
        if not need:
            continue
        got = clobbers(code)
        n += 1
        ok = need <= got
        run.ob(rule, (r['line'],), ok, {'opcode': code, 'pattern': r['pat'], 'scratch registers': sorted(names[x] for x in need),
                                        'declared': sorted(names[x] for x in got)} if n % 25 == 1 or not ok else None)
        if not ok and code not in first:
            first[code] = (r, need - got)
    for code, (r, miss) in first.items():
        run.violation(rule, f, 'early clobbers of %s' % code, 'the pattern {%s, "%s", "%s…"} writes %s as scratch, but '
                      'target_get_early_clobbered_hard_regs does not report it for %s: a value the allocator placed there stays "live" '
                      'across the instruction and is overwritten' % (code, r['pat'], r['rep'][:50], ', '.join(names[x] for x in sorted(miss)), code),
                      file='mir-gen-x86_64.c', line=r['line'])
    if n < 30:
        raise F.AnalysisBroken('RF140: only %d patterns with scratch hard registers' % n)
    return n
