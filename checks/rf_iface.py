"""RF31 execution-interface switch protocol (C03): a function's public address is written once, every interface setter
re-targets the thunk at that address on every path, and the lazy handlers do so before returning."""
from lib import facts as F
from lib import enumflow as EF
import rf_flow
from rf_proto import dominating_conditions, must_pass_between

# stores to MIR_item_t.addr whose item kind is not narrowed by a test at the store: confirmed by reading
ADDR_WRITERS = {
    ('create_item', 'item'): 'a new item starts with a NULL address',
    ('setup_global', 'tab_item'): 'tab_item is the entry of the environment module (an import-kind place holder), not a function item',
    ('load_bss_data_section', 'item'): 'first item of a data section (the callers pass data items only; checked by RF6/RF16f)',
    ('_MIR_builtin_func', 'item'): 'fresh import item created two lines above',
    ('_MIR_builtin_func', 'ref_item'): 'fresh import item of the environment module',
}


def _item_addr_stores(tu, f):
    out = []
    for x in f.walk():
        if x['k'] == 'BinaryOperator' and x['op'] == '=':
            l = F.strip(x['c'][0])
            if l['k'] == 'MemberExpr' and l['n'] == 'addr':
                b = F.strip(l['c'][0])
                if 't' in b and 'MIR_item' in tu.type(b['t']).s:
                    out.append((x, F.src(b)))
    return out


def rf31a(run):
    rule = 'RF31a'
    run.rule(rule, 'public address stability: over every store to MIR_item_t.addr in the library units, the only store that can hit a '
                   'function item (by tag value-set dataflow on item_type) is `item->addr = _MIR_get_thunk (ctx)` in MIR_load_module, '
                   'guarded by item->addr == NULL; every other store is narrowed to non-function kinds or listed in the writer table')
    n = 0
    thunk_stores = 0
    for unit in ('mir', 'gen'):
        tu = run.tu(unit)
        preds = EF.Predicates(tu)
        names = {v: nm for nm, v in tu.enum('MIR_item_type_t')}
        fv = dict(tu.enum('MIR_item_type_t'))['MIR_func_item']
        for f in tu.func_list:
            if f.body is None:
                continue
            sts = _item_addr_stores(tu, f)
            if not sts:
                continue
            run.functions_analysed.add((unit, f.name))
            ef = EF.EnumFlow(tu, f, preds)
            ids = {x['i']: (x, b) for x, b in sts}
            seen = set()
            for bid in ef.cfg.blocks:
                for e, st, alias in ef.states_at_elems(bid):
                    for y in ef.cfg.local_walk(e):
                        if y['i'] not in ids or y['i'] in seen:
                            continue
                        seen.add(y['i'])
                        x, b = ids[y['i']]
                        n += 1
                        S = ef.lookup(st, alias, b + '->item_type')
                        rhs = F.strip(x['c'][1])
                        is_thunk = rhs['k'] == 'CallExpr' and rhs.get('callee') == '_MIR_get_thunk'
                        may_func = S is None or fv in S
                        desc = {'site': '%s:%d %s' % (f.relfile(), x['l'], f.name), 'store': F.src(x)[:70],
                                'item kinds': 'unknown' if S is None else sorted(names[v] for v in S)}
                        if is_thunk:
                            thunk_stores += 1
                            conds = dominating_conditions(ef.cfg, bid)
                            guarded = any(c.replace(' ', '') in ('(%s->addr==0)' % b, '%s->addr==0' % b) and t for c, t in conds)
                            ok = S == {fv} and guarded and f.name == 'MIR_load_module'
                            run.ob(rule, ('thunk', f.name, x['l']), ok, dict(desc, **{'guarded by addr == NULL': guarded}))
                            if not ok:
                                run.violation(rule, f, 'thunk creation %s' % F.src(x)[:60],
                                              'the public address of a function is (re)created %s: callers that already hold the old address '
                                              'keep calling a thunk that is no longer redirected'
                                              % ('without the `%s->addr == NULL` guard' % b if not guarded else 'outside MIR_load_module / for a non-function item'),
                                              line=x['l'])
                            continue
                        if not may_func:
                            run.ob(rule, ('narrowed', f.name, x['l']), True, desc)
                            continue
                        reason = ADDR_WRITERS.get((f.name, b))
                        ok = reason is not None and S is None
                        run.ob(rule, ('listed', f.name, x['l']), ok, dict(desc, listed=reason))
                        if not ok:
                            run.violation(rule, f, 'store %s' % F.src(x)[:60],
                                          '%s overwrites the address of an item that can be a function item: the public address handed out by '
                                          'MIR_load_module must stay the thunk for the life of the context (only its target is redirected)'
                                          % f.name, line=x['l'])
    if thunk_stores != 1:
        raise F.AnalysisBroken('expected exactly one `->addr = _MIR_get_thunk` store, found %d' % thunk_stores)
    run.min_instances(rule, 12)


def _redirect_blocks(cfg, param):
    """blocks calling _MIR_redirect_thunk (ctx, <param>->addr, …)"""
    return rf_flow.blocks_with(cfg, lambda z: z['k'] == 'CallExpr' and z.get('callee') == '_MIR_redirect_thunk'
                               and len(F.call_args(z)) == 3 and F.src(F.strip(F.call_args(z)[1])) == param + '->addr')


def _call_blocks(cfg, callee, param, pos=1):
    return rf_flow.blocks_with(cfg, lambda z: z['k'] == 'CallExpr' and z.get('callee') == callee
                               and len(F.call_args(z)) > pos and F.src(F.strip(F.call_args(z)[pos])) == param)


def _exits_missing(cfg, targets, assume=()):
    """blocks from which the exit is entered on a path from the entry that passes no target block; branches whose condition
    text is in `assume` follow only the edge of the assumed truth value.  -> [(block, [(cond, truth) of the exiting edge])]"""
    noret = {b for b in cfg.blocks if cfg.blocks[b].noreturn}
    amap = dict(assume)

    def succs(b):
        B = cfg.blocks[b]
        if B.cond is not None and len(B.succs) == 2 and B.tk != 'SwitchStmt':
            c = F.src(F.strip(B.cond))
            if c in amap:
                s_ = B.succs[0] if amap[c] else B.succs[1]
                return [s_] if s_ is not None else []
        return cfg.live_succs(b)
    seen, st = set(), [cfg.entry]
    while st:
        b = st.pop()
        if b in seen or b in targets or b in noret:
            continue
        seen.add(b)
        st.extend(succs(b))
    out = []
    for b in seen:
        if b != cfg.exit and cfg.exit in succs(b):
            B = cfg.blocks[b]
            extra = []
            if B.cond is not None and len(B.succs) == 2 and B.tk != 'SwitchStmt':
                extra = [(F.src(F.strip(B.cond)), B.succs[0] == cfg.exit)]
            out.append((b, extra))
    return out


def rf31b(run):
    rule = 'RF31b'
    run.rule(rule, 'interface switch: each of MIR_set_interp_interface / MIR_set_gen_interface / MIR_set_lazy_gen_interface / '
                   'MIR_set_lazy_bb_gen_interface re-targets the thunk at func_item->addr on every path on which func_item != NULL '
                   '(directly or through a callee that always does); generate_func_code redirects on every return except the '
                   '!machine_code_p one, after call_addr was assigned from _MIR_publish_code; generate_func_and_redirect covers the '
                   'remaining (basic-block) path; the lazy handlers return an address taken from the function item')
    gen = run.tu('gen')
    mir = run.tu('mir')

    def always(tu, fname, param, via=(), allow=lambda conds: False, what='', assume=()):
        f = tu.func(fname)
        run.functions_analysed.add((tu.unit, fname))
        cfg = f.cfg
        tg = set(_redirect_blocks(cfg, param))
        for callee, pos in via:
            tg |= _call_blocks(cfg, callee, param, pos)
        for c_, _t in assume:  # an assumed condition must be over an unmodified parameter
            v_ = c_.lstrip('!')
            if v_ not in [q['n'] for q in f.params] or any(x['k'] in ('BinaryOperator', 'CompoundAssignOperator', 'UnaryOperator')
                                                          and x.get('op') in ('=', '+=', '-=', '++', '--', '&') and F.src(F.strip(x['c'][0])) == v_ for x in f.walk()):
                raise F.AnalysisBroken('%s: %s is not an unmodified parameter' % (fname, v_))
        def generated(conds):
            # a function that already has machine code was redirected when that code was published: skipping it is harmless
            return any(c.replace(' ', '').strip('()').endswith('->machine_code!=0') and t or c.replace(' ', '').strip('()').endswith('->machine_code==0') and not t
                       for c, t in conds)
        miss = [b for b, extra in _exits_missing(cfg, tg, assume)
                if not allow(dominating_conditions(cfg, b) + extra)]
        ok = bool(tg) and not miss
        run.ob(rule, ('always', fname), ok, {'function': fname, 'redirecting blocks': len(tg), 'unredirected exits': len(miss), 'clause': what})
        if not ok:
            B = cfg.blocks[miss[0]] if miss else None
            ln = (B.elems[-1]['l'] if B is not None and B.elems else f.line)
            run.violation(rule, f, 'thunk redirection in %s' % fname,
                          '%s can return without re-targeting the thunk at %s->addr (%s): calls through the public address keep '
                          'reaching the previous interface' % (fname, param, what), line=ln)
        return ok

    def null_item(conds):
        return any(c.replace(' ', '') in ('(func_item==0)', 'func_item==0') and t or c.replace(' ', '') in ('(func_item!=0)', 'func_item!=0') and not t
                   for c, t in conds)
    # generator side
    always(gen, 'generate_func_code', 'func_item', assume=(('machine_code_p', True), ('!machine_code_p', False)),
           what='every return when machine_code_p is set')
    always(gen, 'generate_func_and_redirect', 'func_item',
           allow=lambda conds: any(c == 'full_p' and t for c, t in conds),
           what='the basic-block path after `if (full_p) return`')
    # on the full_p return of generate_func_and_redirect the redirect was done by generate_func_code (ctx, func_item, full_p)
    f = gen.func('generate_func_and_redirect')
    cfg = f.cfg
    cb = rf_flow.blocks_with(cfg, lambda z: z['k'] == 'CallExpr' and z.get('callee') == 'generate_func_code'
                             and [F.src(F.strip(a)) for a in F.call_args(z)][1:] == ['func_item', 'full_p'])
    idom = cfg.dominators()
    ok = len(cb) == 1 and all(next(iter(cb)) == b or cfg.dominates(next(iter(cb)), b, idom) for b in cfg.blocks if cfg.exit in cfg.live_succs(b) and b != cfg.exit)
    run.ob(rule, ('gfc-first',), ok, {'generate_func_code (ctx, func_item, full_p) dominates every return': ok})
    if not ok:
        run.violation(rule, f, 'generate_func_code call', 'generate_func_and_redirect does not call generate_func_code (ctx, func_item, full_p) '
                      'before every return: the full_p path relies on it for the redirection', line=f.line)
    for h, flag in (('generate_func_and_redirect_to_func_code', True), ('generate_func_and_redirect_to_bb_gen', False)):
        hf = gen.func(h)
        run.functions_analysed.add(('gen', h))
        hc = hf.cfg
        cb = rf_flow.blocks_with(hc, lambda z: z['k'] == 'CallExpr' and z.get('callee') == 'generate_func_and_redirect'
                                 and F.src(F.strip(F.call_args(z)[1])) == 'func_item'
                                 and (F.const_value(F.call_args(z)[2]) not in (None, 0)) == flag and F.const_value(F.call_args(z)[2]) is not None)
        miss = [b for b, _e in _exits_missing(hc, cb)]
        rets = [F.src(F.strip(r['c'][0])) for r in rf_flow.return_blocks(hf).values() if r.get('c')]
        good_ret = all(r in ('func_item->u.func->machine_code', 'func_item->u.func->call_addr', 'func_item->addr') for r in rets) and rets
        ok = bool(cb) and not miss and good_ret
        run.ob(rule, ('handler', h), ok, {'handler': h, 'calls generate_func_and_redirect (…, %s) on every path' % ('TRUE' if flag else 'FALSE'): bool(cb) and not miss,
                                         'returns': rets})
        if not ok:
            run.violation(rule, hf, 'lazy handler %s' % h, '%s must call generate_func_and_redirect (ctx, func_item, %s) on every path and return an '
                          'address of the function item (returns: %s)' % (h, 'TRUE' if flag else 'FALSE', rets), line=hf.line)
    # setters
    always(gen, 'MIR_set_lazy_gen_interface', 'func_item', allow=null_item, what='func_item != NULL')
    always(gen, 'MIR_set_lazy_bb_gen_interface', 'func_item', allow=null_item, what='func_item != NULL')
    always(gen, 'MIR_set_gen_interface', 'func_item', via=(('MIR_gen', 1),), allow=null_item, what='func_item != NULL')
    # MIR_gen calls generate_func_code (ctx, func_item, TRUE) on every path
    g = gen.func('MIR_gen')
    run.functions_analysed.add(('gen', 'MIR_gen'))
    gc = g.cfg
    cb = rf_flow.blocks_with(gc, lambda z: z['k'] == 'CallExpr' and z.get('callee') == 'generate_func_code'
                             and F.src(F.strip(F.call_args(z)[1])) == 'func_item' and F.const_value(F.call_args(z)[2]) not in (None, 0))
    ok = bool(cb) and not _exits_missing(gc, cb)
    run.ob(rule, ('MIR_gen',), ok, {'MIR_gen calls generate_func_code (ctx, func_item, TRUE) on every path': ok})
    if not ok:
        run.violation(rule, g, 'MIR_gen', 'MIR_gen does not reach generate_func_code (ctx, func_item, TRUE) on every path', line=g.line)
    # the lazy setters install a wrapper whose hook is one of the two handlers
    for s in ('MIR_set_lazy_gen_interface', 'MIR_set_lazy_bb_gen_interface'):
        sf = gen.func(s)
        hooks = [F.src(F.strip(F.call_args(z)[2])) for z in sf.walk() if z['k'] == 'CallExpr' and z.get('callee') == '_MIR_get_wrapper']
        ok = len(hooks) == 1 and hooks[0] in ('generate_func_and_redirect_to_func_code', 'generate_func_and_redirect_to_bb_gen')
        run.ob(rule, ('hook', s), ok, {'setter': s, 'wrapper hook': hooks})
        if not ok:
            run.violation(rule, sf, 'wrapper hook of %s' % s, '%s installs the wrapper hook %s, which is not one of the two generating handlers' % (s, hooks), line=sf.line)
    # call_addr is assigned from _MIR_publish_code before the redirect on the generating path
    f = gen.func('generate_func_code')
    cfg = f.cfg
    pub = rf_flow.blocks_with(cfg, lambda z: z['k'] == 'BinaryOperator' and z['op'] == '=' and F.src(F.strip(z['c'][0])).endswith('->call_addr')
                              and any(w['k'] == 'CallExpr' and w.get('callee') == '_MIR_publish_code' for w in F.walk(z['c'][1])))
    red = _redirect_blocks(cfg, 'func_item')
    idom = cfg.dominators()
    late = [b for b in red if b in pub or any(cfg.dominates(p, b, idom) for p in pub)]
    ok = len(pub) == 1 and len(late) >= 1
    if ok:
        b = late[0]
        if b in pub:
            B = cfg.blocks[b]
            ip = [i for i, e in enumerate(B.elems) if any(w['k'] == 'CallExpr' and w.get('callee') == '_MIR_publish_code' for w in F.walk(e))]
            ir = [i for i, e in enumerate(B.elems) if any(w['k'] == 'CallExpr' and w.get('callee') == '_MIR_redirect_thunk' for w in F.walk(e))]
            ok = bool(ip) and bool(ir) and min(ip) < min(ir)
    run.ob(rule, ('publish-before-redirect',), ok, {'call_addr = _MIR_publish_code (…) precedes the redirect': ok})
    if not ok:
        run.violation(rule, f, 'redirect target', 'generate_func_code redirects the thunk before call_addr is assigned from _MIR_publish_code',
                      line=f.line)
    # interpreter side
    always(mir, 'redirect_interface_to_interp', 'func_item', what='always')
    always(mir, 'MIR_set_interp_interface', 'func_item', via=(('redirect_interface_to_interp', 1),), allow=null_item, what='func_item != NULL')
    # loading: a function item is (re)pointed at undefined_interface on every load
    lm = mir.func('MIR_load_module')
    run.functions_analysed.add(('mir', 'MIR_load_module'))
    lc = lm.cfg
    tb = rf_flow.blocks_with(lc, lambda z: z['k'] == 'BinaryOperator' and z['op'] == '=' and F.strip(z['c'][1])['k'] == 'CallExpr'
                             and F.strip(z['c'][1]).get('callee') == '_MIR_get_thunk')
    rb = _redirect_blocks(lc, 'item')
    ok = len(tb) == 1 and bool(rb) and must_pass_between(lc, next(iter(tb)), rb, [lc.exit])
    run.ob(rule, ('load-redirect',), ok, {'new thunk is pointed at undefined_interface before anything else': ok})
    if not ok:
        run.violation(rule, lm, 'fresh thunk', 'MIR_load_module creates a thunk that is not redirected on every path (an unlinked function '
                      'would jump to an arbitrary address)', line=lm.line)
    run.min_instances(rule, 12)


# ---------------------------------------------------------------------------------------------
# RF42: absolute label addresses stored into lref data point into storage that lives as long as the function's code
# ---------------------------------------------------------------------------------------------

GOOD_CALLS = ('MIR_malloc', '_MIR_publish_code', '_MIR_get_bb_thunk', 'get_bb_version')
GOOD_FIELDS = ('call_addr', 'machine_code', 'addr', 'thunk')   # thunk: bb_version.thunk, the basic-block thunk (D97)


def _origin(tu, f, e, depth=0, seen=None):
    """classify where a pointer expression comes from: set of ('good'|'scratch'|'unknown', description)"""
    seen = seen if seen is not None else set()
    e = F.strip(e)
    k = e['k']
    te = tu.type(e)
    if te is not None and te.kind not in ('ptr', 'array') and k not in ('CallExpr', 'ConditionalOperator'):
        return {('good', 'integer value (no address)')}
    if k == 'CallExpr':
        c = e.get('callee') or ''
        if c.startswith('VARR_') and c.endswith('addr'):
            return {('scratch', 'VARR_ADDR of %s' % F.src(F.strip(F.call_args(e)[0]))[:40])}
        if c in GOOD_CALLS:
            return {('good', c)}
        return {('unknown', 'result of %s' % c)}
    if k == 'BinaryOperator' and e['op'] in ('+', '-'):
        out = set()
        for c_ in e['c']:
            t = tu.type(F.strip(c_, explicit=False))  # a pointer cast to an integer is an offset, not an address
            if t is not None and t.kind in ('ptr', 'array'):
                out |= _origin(tu, f, c_, depth, seen)
        return out
    if k == 'ConditionalOperator':
        return _origin(tu, f, e['c'][1], depth, seen) | _origin(tu, f, e['c'][2], depth, seen)
    if k == 'MemberExpr':
        if e['n'] in GOOD_FIELDS:
            return {('good', 'field %s' % e['n'])}
        if e['n'] == 'code':
            return _origin(tu, f, e['c'][0], depth, seen)
        return {('unknown', F.src(e)[:40])}
    if k == 'DeclRefExpr':
        key = (f.name, e['n'])
        if key in seen:
            return set()  # a self-referential update (p = p + d): the other definitions decide
        if depth > 4:
            return {('unknown', e['n'])}
        seen.add(key)
        out = set()
        if e.get('dk') == 'param':
            idx = [p['n'] for p in f.params].index(e['n'])
            callers = 0
            for g in tu.func_list:
                if g.body is None:
                    continue
                for y in g.walk():
                    if y['k'] == 'CallExpr' and y.get('callee') == f.name and len(F.call_args(y)) > idx:
                        callers += 1
                        out |= _origin(tu, g, F.call_args(y)[idx], depth + 1, seen)
            return out or {('unknown', 'parameter %s without callers' % e['n'])}
        for x in f.walk():
            if x['k'] == 'BinaryOperator' and x['op'] == '=':
                # a = b = MIR_malloc (…): follow nested assignments too
                l = F.strip(x['c'][0])
                if l['k'] == 'DeclRefExpr' and l['n'] == e['n']:
                    out |= _origin(tu, f, x['c'][1], depth + 1, seen)
                r = F.strip(x['c'][1])
                if r['k'] == 'BinaryOperator' and r['op'] == '=' and F.strip(r['c'][0])['k'] == 'DeclRefExpr' and F.strip(r['c'][0])['n'] == e['n']:
                    out |= _origin(tu, f, r['c'][1], depth + 1, seen)
            if x['k'] == 'DeclStmt':
                for d in x['decls']:
                    if d['n'] == e['n'] and d.get('init') is not None:
                        out |= _origin(tu, f, d['init'], depth + 1, seen)
            if x['k'] == 'CallExpr' and x.get('callee') in GOOD_CALLS:
                for a in F.call_args(x):
                    a = F.strip(a)
                    if a['k'] == 'UnaryOperator' and a['op'] == '&' and F.src(F.strip(a['c'][0])) == e['n']:
                        out.add(('good', 'out-parameter of %s' % x['callee']))
        return out or {('unknown', e['n'])}
    if k == 'UnaryOperator' and e['op'] == '&':
        return {('unknown', F.src(e)[:40])}
    return {('unknown', F.src(e)[:40])}


def rf42(run):
    rule = 'RF42'
    run.rule(rule, 'every absolute address written into the memory of an lref data item (*(void **) lref->load_addr = …) derives — through '
                   'local assignments and parameters, followed to the callers — from storage that lives as long as the function\'s code '
                   '(MIR_malloc\'ed interpreter code, published machine code, a basic-block thunk), never from VARR_ADDR of a context '
                   'scratch vector that the next function overwrites or reallocates')
    n = 0
    for unit in ('mir', 'gen'):
        tu = run.tu(unit)
        for f in tu.func_list:
            if f.body is None:
                continue
            for x in f.walk():
                if x['k'] != 'BinaryOperator' or x['op'] != '=':
                    continue
                l = F.strip(x['c'][0])
                if not (l['k'] == 'UnaryOperator' and l['op'] == '*' and 'load_addr' in F.src(l) and 'lref' in F.src(l)):
                    continue
                lt = tu.type(l)
                if lt is None or lt.kind != 'ptr':
                    continue  # the label-difference form stores an integer
                n += 1
                run.functions_analysed.add((unit, f.name))
                org = _origin(tu, f, x['c'][1]) or {('unknown', F.src(x['c'][1])[:40])}
                kinds = {k_ for k_, _ in org}
                desc = sorted('%s: %s' % o for o in org)
                if 'scratch' in kinds:
                    run.ob(rule, (unit, f.name, x['l']), False, {'site': '%s:%d' % (f.relfile(), x['l']), 'origins': desc})
                    run.violation(rule, f, 'address stored into lref data', '%s stores an address derived from %s into an lref data item: the '
                                  'scratch vector is refilled/reallocated when the next function is prepared, so the stored label address '
                                  'dangles' % (f.name, [d for k_, d in org if k_ == 'scratch'][0]), line=x['l'])
                elif 'unknown' in kinds:
                    run.ob(rule, (unit, f.name, x['l']), False, {'site': '%s:%d' % (f.relfile(), x['l']), 'origins': desc})
                    run.analysis_broken(rule, '%s:%d: origin of the stored address not classified (%s)' % (f.name, x['l'], desc))
                else:
                    run.ob(rule, (unit, f.name, x['l']), True, {'site': '%s:%d' % (f.relfile(), x['l']), 'origins': desc})
    if n < 3:
        raise F.AnalysisBroken('only %d stores into lref data found (3 confirmed by hand)' % n)
    return n


# ---------------------------------------------------------------------------------------------
# RF47: the buffer handed to the FFI trampoline belongs to the call
# ---------------------------------------------------------------------------------------------

def rf47(run):
    rule = 'RF47'
    run.rule(rule, 'mir-interp.c call (): the argument/result buffer passed to the native-call trampoline, and read again after the '
                   'native function returns, is storage of this activation (alloca or a local array), not a field of the interpreter '
                   'context: the native callee may re-enter the interpreter, whose next native call would overwrite or reallocate a '
                   'shared buffer before the outer call has taken its results')
    tu = run.tu('mir')
    f = tu.func('call')
    run.functions_analysed.add(('mir', f.name))
    tramp = [x for x in f.walk() if x['k'] == 'CallExpr' and x.get('callee') is None and 'ff_interface_addr' in F.src(F.strip(x['c'][0]))]
    if len(tramp) != 1:
        raise F.AnalysisBroken('call (): the indirect call of the trampoline was found %d times' % len(tramp))
    buf = F.strip(F.call_args(tramp[0])[1])
    kind = None
    if buf['k'] == 'MemberExpr':
        kind = ('shared', 'context field %s' % F.src(buf))
    elif buf['k'] == 'DeclRefExpr' and buf.get('dk') in ('local', None):
        t = tu.type(buf)
        if t is not None and t.kind == 'array':
            kind = ('local', 'local array')
        else:
            srcs = []
            for x in f.walk():
                if x['k'] == 'BinaryOperator' and x['op'] == '=' and F.src(F.strip(x['c'][0])) == buf['n']:
                    srcs.append(F.strip(x['c'][1]))
                if x['k'] == 'DeclStmt':
                    for d in x['decls']:
                        if d['n'] == buf['n'] and d.get('init') is not None:
                            srcs.append(F.strip(d['init']))
            if srcs and all(s_['k'] == 'CallExpr' and (s_.get('callee') in ('alloca', '__builtin_alloca', '_alloca')) for s_ in srcs):
                kind = ('local', 'alloca')
            elif any(s_['k'] == 'MemberExpr' or (s_['k'] == 'CallExpr' and (s_.get('callee') or '').startswith('VARR_')) for s_ in srcs):
                kind = ('shared', 'assigned from %s' % F.src(srcs[0])[:50])
    if kind is None:
        raise F.AnalysisBroken('call (): origin of the trampoline buffer %s not classified' % F.src(buf))
    ok = kind[0] == 'local'
    run.ob(rule, ('trampoline-buffer',), ok, {'buffer': F.src(buf), 'origin': kind[1]})
    if not ok:
        run.violation(rule, f, 'trampoline buffer %s' % F.src(buf),
                      'call () passes %s (%s) to the trampoline and reads the results from it after the native function returns; a native '
                      'callee that calls back into interpreted code makes the nested call () reuse or reallocate that buffer, so the outer '
                      'results are lost (or written into freed memory)' % (F.src(buf), kind[1]), line=tramp[0]['l'])
    run.min_instances(rule, 1)


# ---------------------------------------------------------------------------------------------
# RF42b: one lref slot, several engines
# ---------------------------------------------------------------------------------------------

def rf42b(run):
    rule = 'RF42b'
    run.rule(rule, 'the memory cell of an lref data item holds one address, yet it is filled with engine-specific values: interpreter '
                   'code addresses by generate_icode and machine-code addresses by the generator. A function that is prepared by one '
                   'engine after the other leaves the cell valid for the last one only, so an indirect jump through the table under '
                   'the first engine goes to a foreign address. Each engine-specific writer of the shared cell is reported')
    writers = []
    for unit in ('mir', 'gen'):
        tu = run.tu(unit)
        for f in tu.func_list:
            if f.body is None:
                continue
            for x in f.walk():
                if x['k'] == 'BinaryOperator' and x['op'] == '=':
                    l = F.strip(x['c'][0])
                    if l['k'] == 'UnaryOperator' and l['op'] == '*' and 'load_addr' in F.src(l) and 'lref' in F.src(l):
                        lt = tu.type(l)
                        if lt is not None and lt.kind == 'ptr':
                            writers.append((unit, f, x))
    engines = {}
    for unit, f, x in writers:
        eng = 'interpreter' if f.relfile().endswith('mir-interp.c') else 'generator'
        engines.setdefault(eng, []).append((unit, f, x))
    run.functions_analysed.update((u, f.name) for u, f, x in writers)
    if not writers:
        raise F.AnalysisBroken('no writer of lref data cells found')
    if len(engines) <= 1:
        run.ob(rule, ('single-engine',), True, {'engines writing lref cells': sorted(engines)})
        return
    # the minority engine's writer is the one that breaks already generated code
    for unit, f, x in engines.get('interpreter', []):
        run.ob(rule, ('shared-cell', f.name), False, {'writer': '%s:%d %s' % (f.relfile(), x['l'], f.name), 'also written by': sorted(
            '%s:%s' % (g.relfile(), g.name) for u, g, y in engines.get('generator', []))})
        run.violation(rule, f, 'lref cell shared with the generator',
                      '%s stores interpreter code addresses into the lref data cells that generated code reads (written by %s): after '
                      '"generate f; call it; interpret f" the generated code jumps through the table to interpreter addresses'
                      % (f.name, ', '.join(sorted(g.name for u, g, y in engines.get('generator', [])))), line=x['l'])


# ---------------------------------------------------------------------------------------------
# RF89: interpreter label addresses and label differences use one unit
# ---------------------------------------------------------------------------------------------

def rf89(run):
    from lib import printexec as PE
    rule = 'RF89'
    run.rule(rule, 'generate_icode fills lref data either with a label address `(char *) (code + index) + disp` or with a label difference.  '
                   'Addresses advance by sizeof (code element) per index, so the stored difference of two labels whose indices differ by '
                   'one, with disp 0, must evaluate to that element size: `laddr base, la; add base, base, <lb - la>; jmpi base` has to '
                   'reach lb in the interpreter as in generated code')
    tu = run.tu('mir')
    f = tu.func('generate_icode')
    run.functions_analysed.add(('mir', f.name))
    stores = [x for x in f.walk() if x['k'] == 'BinaryOperator' and x['op'] == '=' and 'load_addr' in F.src(x['c'][0]) and 'label2' in F.src(x['c'][1])]
    if len(stores) != 1:
        raise F.AnalysisBroken('generate_icode: store of the label difference not found')
    st = stores[0]
    # element size of the code array: the type of func_desc->code elements
    esz = None
    for x in f.walk():
        if x['k'] == 'MemberExpr' and x['n'] == 'code' and F.src(F.strip(x['c'][0])).endswith('func_desc'):
            t = tu.type(x)
            if t is not None and t.elem is not None:
                et = tu.type(t.elem)
                esz = (et.w // 8) if et is not None and et.w else None
            elif t is not None and t.pointee is not None:
                et = tu.type(t.pointee)
                esz = (et.w // 8) if et is not None and et.w else None
            if esz:
                break
    if not esz:
        raise F.AnalysisBroken('generate_icode: element size of the interpreter code not determined')
    ev = PE.HeapEnv(tu, {})
    env = {'lref->label->data': 1, 'lref->label2->data': 0, 'lref->disp': 0}
    v = ev.eval(st['c'][1], env, frozenset())
    ok = v == esz
    run.ob(rule, ('unit',), ok, {'stored difference for adjacent indices': v, 'address step per index (element size)': esz, 'expression': F.src(st['c'][1])[:100]})
    if not ok:
        run.violation(rule, f, 'unit of the label difference', 'for two labels one code element apart the interpreter stores the difference %s, but label '
                      'addresses (laddr, lref with one label) differ by %d bytes: an address computed as base label + stored difference does not '
                      'reach the second label under the interpreter' % (v, esz), line=st['l'])
    return 1


# ---------------------------------------------------------------------------------------------
# RF132: the machine-code address of a function is not its public address
# ---------------------------------------------------------------------------------------------

RF132_READERS = {
    'generate_func_code': 'redirects the thunk to the code and returns the thunk',
    'target_change_to_direct_calls': 'patches call instructions (not address values) to the code',
    'generate_func_and_redirect_to_func_code': 'lazy handler: returns the address to continue at',
}


def rf132(run):
    rule = 'RF132'
    run.rule(rule, 'a function has one public address, the thunk in func_item->addr: `mov p, f`, `ref f` data, imports and exports all '
                   'yield it, and it does not change when the function is generated.  MIR_func_t.call_addr and .machine_code are read only '
                   'by the three functions that redirect the thunk or patch call instructions (frozen table); a reader that turns them '
                   'into an address *value* (reference operands, ref data cells) makes &f depend on whether and when f was generated')
    n = 0
    for u in ('mir', 'gen'):
        tu = run.tu(u)
        for g in tu.func_list:
            if not g.file.startswith('/repo') or g.body is None:
                continue
            for x in g.walk():
                if x['k'] == 'MemberExpr' and x['n'] in ('call_addr', 'machine_code') and 'MIR_func' in tu.type(x['c'][0]).s:
                    par = g.parent_of(x)
                    if par is not None and par['k'] == 'BinaryOperator' and par['op'] == '=' and F.strip(par['c'][0]) is x:
                        continue
                    n += 1
                    ok = g.name in RF132_READERS
                    reason = RF132_READERS.get(g.name)
                    if not ok:
                        # a test for "has the function been generated" yields no address value
                        p_ = par
                        while p_ is not None and p_['k'] in F.CASTS + ('ParenExpr',):
                            p_ = g.parent_of(p_)
                        if p_ is not None and p_['k'] == 'BinaryOperator' and p_['op'] in ('==', '!=') and \
                                any(F.const_value(F.strip(c_)) == 0 or F.src(F.strip(c_)) in ('NULL', '((void*)0)', '((void *)0)') for c_ in p_['c']):
                            ok, reason = True, 'null test only'
                        elif p_ is not None and p_['k'] == 'UnaryOperator' and p_['op'] == '!':
                            ok, reason = True, 'null test only'
                    run.functions_analysed.add((u, g.name))
                    run.ob(rule, (g.name, x['l']), ok, {'site': '%s:%d %s' % (g.relfile(), x['l'], g.name), 'field': x['n'], 'reason': reason})
                    if not ok:
                        run.violation(rule, g, 'code address used as a value', '%s reads `%s` (line %d): outside the thunk redirection and the '
                                      'patching of call instructions the code address must not stand for the function — an address taken after '
                                      'the function was generated differs from one taken before (and from the value of `ref f` data, imports, the '
                                      'interpreter), so comparisons and look-ups by function address depend on the interface and the order of calls' %
                                      (g.name, F.src(x)[:50], x['l']), line=x['l'])
    if n < 5:
        raise F.AnalysisBroken('RF132: only %d reads of call_addr / machine_code found' % n)
    return n


# ---------------------------------------------------------------------------------------------
# RF147: block parameters of the interpreter shim live in the activation
# ---------------------------------------------------------------------------------------------

def rf147(run):
    rule = 'RF147'
    run.rule(rule, 'mir-interp.c, interp (the C entry of the interpreter shim): the copy of a by-value block parameter is storage of this '
                   'activation (alloca) or memory the caller owns (a pointer taken with va_arg).  The address never derives from '
                   'VARR_ADDR of a context-level vector: interpreted code re-enters the shim, the vector grows and moves, and the outer '
                   'activation reads its parameter from freed memory')
    tu = run.tu('mir')
    f = tu.func('interp')
    run.functions_analysed.add(('mir', f.name))
    stores = [x for x in f.walk() if x['k'] == 'BinaryOperator' and x['op'] == '=' and F.src(F.strip(x['c'][0])).replace(' ', '').endswith('.a')
              and 'arg_vals' in F.src(x['c'][0])]
    if not stores:
        raise F.AnalysisBroken('interp: stores of argument addresses not found')

    def origin(e, depth=0, seen=None):
        seen = seen if seen is not None else set()
        e = F.strip(e)
        k = e['k']
        if k == 'CallExpr':
            c = e.get('callee') or ''
            if c in ('alloca', '__builtin_alloca'):
                return {'activation (alloca)'}
            if c.startswith('VARR_') and (c.endswith('addr') or c.endswith('get') or c.endswith('last')):
                return {'context vector %s' % F.src(F.strip(F.call_args(e)[0]))[:40]}
            return {'result of %s' % c}
        if k == 'VAArgExpr' or 'va_arg' in F.src(e)[:12]:
            return {'caller (va_arg)'}
        if k == 'BinaryOperator' and e['op'] in ('+', '-'):
            return origin(e['c'][0], depth, seen) | (origin(e['c'][1], depth, seen) if tu.type(F.strip(e['c'][1])) is not None and tu.type(F.strip(e['c'][1])).kind == 'ptr' else set())
        if k == 'DeclRefExpr' and depth < 4 and e['n'] not in seen:
            seen.add(e['n'])
            out = set()
            for x in f.walk():
                if x['k'] in ('BinaryOperator', 'CompoundAssignOperator') and x['op'] in ('=', '+=') and F.src(F.strip(x['c'][0])) == e['n'] and x['op'] == '=':
                    out |= origin(x['c'][1], depth + 1, seen)
                if x['k'] == 'DeclStmt':
                    for d in x.get('decls', []):
                        if d['n'] == e['n'] and d.get('init') is not None:
                            out |= origin(d['init'], depth + 1, seen)
            return out or {'variable %s' % e['n']}
        return {F.src(e)[:40]}
    n = 0
    for x in stores:
        o = origin(x['c'][1])
        bad = sorted(y for y in o if y.startswith('context vector'))
        n += 1
        run.ob(rule, (x['l'],), not bad, {'site': '%s:%d' % (f.relfile(), x['l']), 'origin': sorted(o)})
        if bad:
            run.violation(rule, f, 'block parameter copy in a context vector', '`%s` takes the address of a by-value block parameter from %s: a nested '
                          'entry into the shim expands the vector (realloc), and the outer function then reads its parameter from the old, '
                          'freed area — under the interpreter interface only' % (F.src(x)[:60], bad[0]), line=x['l'])
    return n


# ---------------------------------------------------------------------------------------------
# RF151: generated code and the interpreter address the same copy of a data item
# ---------------------------------------------------------------------------------------------

def rf151(run):
    rule = 'RF151'
    run.rule(rule, 'mir-gen.c get_ref_value: the value of a reference to a data item is item->addr, the address the loader gave the item '
                   '(the interpreter, ref data and imports use it).  The element buffer `u.data->u.els` is returned only under the '
                   'condition that the item has no address yet (temporaries the generator creates after loading); otherwise generated '
                   'code works on another copy than the interpreter, and the anonymous items that continue the section are not behind it')
    gen = run.tu('gen')
    f = gen.func('get_ref_value')
    run.functions_analysed.add(('gen', f.name))
    cfg = f.cfg
    n = 0
    for bid, ret in rf_flow.return_blocks(f).items():
        if not ret.get('c') or ret['c'][0] is None:
            continue
        e = F.src(F.strip(ret['c'][0])).replace(' ', '')
        if not e.endswith('u.els'):
            continue
        conds = dominating_conditions(cfg, bid)
        ok = any(c.replace(' ', '').strip('()').endswith('->addr==0') and t or c.replace(' ', '').strip('()').endswith('->addr!=0') and not t
                 for c, t in conds)
        # the `&&` chain may hold the test as its last operand
        if not ok:
            for B in cfg.blocks.values():
                if B.cond is not None and F.src(F.strip(B.cond)).replace(' ', '').strip('()').endswith('->addr==0') and bid in cfg.reachable_from(B.succs[0]) \
                        and B.succs[0] is not None and cfg.dominates(B.id, bid):
                    ok = True
        n += 1
        run.ob(rule, (ret['l'],), ok, {'returns': e, 'only for items without an address': ok})
        if not ok:
            run.violation(rule, f, 'element buffer used for a loaded item', 'get_ref_value returns `%s` without testing that the item has no address: for a '
                          'loaded `.lcN` item generated code reads and writes the element buffer while the interpreter uses the loaded copy '
                          '(`third ()` of a three-element `.lc` section: 33 interpreted, 0 generated)' % e, line=ret['l'])
    run.ob(rule, ('exists',), True)
    return n + 1


# ---------------------------------------------------------------------------------------------
# RF177: bb stubs are created only for a function whose generator state was just built
# ---------------------------------------------------------------------------------------------

def rf177(run):
    import rf_proto
    rule = 'RF177'
    run.rule(rule, 'generator: generate_func_code returns at once — without touching curr_func_item or the CFG — for a function that already '
                   'has machine code (a module loaded and linked a second time).  Every function that calls create_bb_stubs after '
                   'generate_func_code does so under a test of `machine_code` (the whole-function code is used instead); otherwise the stubs '
                   'are built from the state left by the function generated before, and func_item->data is NULL (D116)')
    tu = run.tu('gen')
    n = 0
    for g in tu.func_list:
        if g.body is None:
            continue
        calls = {x.get('callee'): x for x in g.walk() if x['k'] == 'CallExpr'}
        if 'generate_func_code' not in calls or 'create_bb_stubs' not in calls:
            continue
        cfg = g.cfg
        run.functions_analysed.add(('gen', g.name))
        b = cfg.block_of(calls['create_bb_stubs'])
        conds = rf_proto.dominating_conditions(cfg, b) if b is not None else []
        ok = any('machine_code' in c for c, t in conds)
        if not ok:
            # the guard may test a local that was set under a test of machine_code (`if (…machine_code != NULL) full_p = TRUE;`)
            import re
            for x in g.walk():
                if x['k'] == 'BinaryOperator' and x['op'] == '=' and F.strip(x['c'][0])['k'] == 'DeclRefExpr':
                    v = F.strip(x['c'][0])['n']
                    if not any(re.search(r'(?<![A-Za-z0-9_>.])%s(?![A-Za-z0-9_])' % re.escape(v), c) for c, t in conds):
                        continue
                    xb = cfg.block_of(x)
                    under = rf_proto.dominating_conditions(cfg, xb) if xb is not None else []
                    if 'machine_code' in F.src(x['c'][1]) or any('machine_code' in c for c, t in under):
                        ok = True
        n += 1
        run.ob(rule, (g.name,), ok, {'function': g.name, 'conditions in front of create_bb_stubs': ['%s=%s' % (c[:60], t) for c, t in conds]})
        if not ok:
            run.violation(rule, g, 'bb stubs for an already generated function', '%s calls create_bb_stubs after generate_func_code without '
                          'looking at `machine_code`: for a function that already has whole-function code generate_func_code has '
                          'returned early, and the stubs are created from stale generator state (crash when a module is loaded again and '
                          'linked with the lazy bb interface)' % g.name, line=calls['create_bb_stubs']['l'])
    run.control(rule, 'the lazy bb entry point found', n >= 1)
    return n


# ---------------------------------------------------------------------------------------------
# RF193: every register the interpreter code refers to is counted for the frame size
# ---------------------------------------------------------------------------------------------

def rf193(run):
    rule = 'RF193'
    run.rule(rule, 'mir-interp.c, preparation of the interpreter code: the frame of an activation has `max register number + 1` cells, computed '
                   'while the code is generated.  Every register number written into the code — `v.i = …u.reg` / `…u.mem.base` / '
                   '`…u.mem.index`, directly or in a helper — goes through get_reg or is passed to update_max_nreg in the same function.  A '
                   'number that is not counted may be the highest one of the function: its cell lies outside the frame, the argument '
                   'arriving in it is dropped and stores through it go elsewhere (D121)')
    tu = run.tu('mir')
    n = 0
    for g in tu.func_list:
        if g.body is None or not g.file.endswith('mir-interp.c'):
            continue
        counted = set()
        for x in g.walk():
            if x['k'] == 'CallExpr' and x.get('callee') == 'update_max_nreg':
                counted.add(F.src(F.strip(F.call_args(x)[0])).replace(' ', ''))
        for x in g.walk():
            if not (x['k'] == 'BinaryOperator' and x['op'] == '='):
                continue
            l = F.strip(x['c'][0])
            if not (l['k'] == 'MemberExpr' and l['n'] == 'i' and 'MIR_val' in (getattr(tu.type(l['c'][0]), 's', '') or '')):
                continue
            r = F.strip(x['c'][1])
            rs = F.src(r).replace(' ', '')
            if not (r['k'] == 'MemberExpr' and (rs.endswith('.u.reg') or rs.endswith('.u.mem.base') or rs.endswith('.u.mem.index'))):
                continue
            n += 1
            ok = rs in counted or F.src(l).replace(' ', '') in counted   # `v.i = base; update_max_nreg (v.i, …)`
            run.functions_analysed.add(('mir', g.name))
            run.ob(rule, (g.name, x['l']), ok, {'site': '%s:%d %s' % (g.relfile(), x['l'], g.name), 'register written into the code': rs, 'counted': ok})
            if not ok:
                run.violation(rule, g, 'register not counted for the frame', '%s writes the register number `%s` into the interpreter code (line %d) '
                              'without update_max_nreg: if it is the highest register of the function the frame is one cell short' % (g.name, rs, x['l']),
                              line=x['l'])
    run.control(rule, 'register numbers written by helpers found (push_mem)', n >= 1)
    return n
