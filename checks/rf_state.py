"""RF5 process-wide mutable state; non-reentrant libc who-may-call."""
from lib import facts as F

NONREENTRANT = {'strtok', 'localtime', 'gmtime', 'ctime', 'asctime', 'rand', 'srand', 'setlocale', 'strerror',
                'getenv_s', 'tmpnam', 'setenv', 'putenv', 'readdir', 'getpwnam', 'getpwuid', 'ttyname', 'basename',
                'dirname', 'drand48', 'lrand48', 'random', 'srandom', 'ecvt', 'fcvt', 'gcvt', 'getlogin', 'wcstombs_l'}


class Tree:
    """parent map over an arbitrary expression/statement tree"""

    def __init__(self, root):
        self.root = root
        self.par = {}
        st = [root]
        while st:
            n = st.pop()
            for c in F.kids(n):
                self.par[id(c)] = n
                st.append(c)

    def parent(self, n):
        return self.par.get(id(n))


def _ptr_to_const(tu, t):
    if t is None:
        return False
    if t.kind in ('ptr',) and t.pointee is not None:
        return tu.types[t.pointee].const
    return False


def classify(tu, tree, ref):
    """classify one DeclRefExpr of a static variable.  Returns (kind, node, info) with kind in
    read | write | escape | safe-addr"""
    n = ref
    p = tree.parent(n)
    # 1. follow the lvalue path rooted in the variable's own storage
    while p is not None:
        if p['k'] == 'MemberExpr' and not p.get('arrow'):
            n, p = p, tree.parent(p)
            continue
        if p['k'] == 'ImplicitCastExpr' and p.get('ck') == 'ArrayToPointerDecay':
            pp = tree.parent(p)
            if pp is not None and pp['k'] == 'ArraySubscriptExpr' and pp['c'][0] is p:
                n, p = pp, tree.parent(pp)
                continue
            # decayed address
            return _follow_address(tu, tree, p)
        break
    if p is None:
        return ('read', n, 'initialiser')
    k = p['k']
    if k in ('BinaryOperator', 'CompoundAssignOperator') and p['c'][0] is n and (p['op'] == '=' or k == 'CompoundAssignOperator'):
        return ('write', p, 'assignment')
    if k == 'UnaryOperator' and p['op'] in ('++', '--'):
        return ('write', p, p['op'])
    if k == 'UnaryOperator' and p['op'] == '&':
        return _follow_address(tu, tree, p)
    if k == 'ImplicitCastExpr' and p.get('ck') == 'LValueToRValue':
        return ('read', p, '')
    if k == 'UnaryExprOrTypeTraitExpr':
        return ('read', p, 'sizeof')
    if k == 'ImplicitCastExpr' and p.get('ck') == 'FunctionToPointerDecay':
        return ('read', p, '')
    return ('read', p, k)


def _follow_address(tu, tree, addr):
    """addr evaluates to a pointer into the static object: where does the pointer go?"""
    n = addr
    p = tree.parent(n)
    while p is not None:
        k = p['k']
        if k in F.CASTS:
            n, p = p, tree.parent(p)
            continue
        if k == 'BinaryOperator' and p['op'] in ('+', '-') and tu.type(p).kind == 'ptr':
            n, p = p, tree.parent(p)
            continue
        if k == 'ConditionalOperator' and p['c'][0] is not n:
            n, p = p, tree.parent(p)
            continue
        break
    t = tu.type(n)
    if p is None:
        # initialiser of another variable: const-ness of the receiving pointer type decides
        return ('safe-addr', n, 'const pointer') if _ptr_to_const(tu, t) else ('escape', n, 'stored in initialiser as %s' % t.s)
    k = p['k']
    if k == 'BinaryOperator' and p['op'] in ('==', '!=', '<', '>', '<=', '>='):
        return ('safe-addr', p, 'compared')
    if k == 'UnaryOperator' and p['op'] == '*':
        # *(&x) or *arr: back to an lvalue of the object; classify the dereference's own use
        pp = tree.parent(p)
        if pp is not None and pp['k'] in ('BinaryOperator', 'CompoundAssignOperator') and pp['c'][0] is p and \
                (pp['op'] == '=' or pp['k'] == 'CompoundAssignOperator'):
            return ('write', pp, 'store through address')
        return ('read', p, 'deref')
    if k == 'ArraySubscriptExpr' and p['c'][0] is n:
        pp = tree.parent(p)
        if pp is not None and pp['k'] in ('BinaryOperator', 'CompoundAssignOperator') and pp['c'][0] is p and \
                (pp['op'] == '=' or pp['k'] == 'CompoundAssignOperator'):
            return ('write', pp, 'element store')
        if pp is not None and pp['k'] == 'UnaryOperator' and pp['op'] in ('++', '--'):
            return ('write', pp, 'element ' + pp['op'])
        if pp is not None and pp['k'] == 'UnaryOperator' and pp['op'] == '&':
            return _follow_address(tu, tree, pp)
        if pp is not None and pp['k'] == 'MemberExpr' and not pp.get('arrow'):
            # arr[i].field ...
            q, qq = pp, tree.parent(pp)
            while qq is not None and qq['k'] == 'MemberExpr' and not qq.get('arrow'):
                q, qq = qq, tree.parent(qq)
            if qq is not None and qq['k'] in ('BinaryOperator', 'CompoundAssignOperator') and qq['c'][0] is q and \
                    (qq['op'] == '=' or qq['k'] == 'CompoundAssignOperator'):
                return ('write', qq, 'element field store')
            if qq is not None and qq['k'] == 'UnaryOperator' and qq['op'] in ('++', '--'):
                return ('write', qq, 'element field ' + qq['op'])
            if qq is not None and qq['k'] == 'UnaryOperator' and qq['op'] == '&':
                return _follow_address(tu, tree, qq)
            if qq is not None and qq['k'] == 'ImplicitCastExpr' and qq.get('ck') == 'ArrayToPointerDecay':
                return _follow_address(tu, tree, qq)
        return ('read', p, 'element')
    if k == 'MemberExpr' and p.get('arrow'):
        # (&x)->f : lvalue of the object again
        q, qq = p, tree.parent(p)
        while qq is not None and qq['k'] == 'MemberExpr' and not qq.get('arrow'):
            q, qq = qq, tree.parent(qq)
        if qq is not None and qq['k'] in ('BinaryOperator', 'CompoundAssignOperator') and qq['c'][0] is q and \
                (qq['op'] == '=' or qq['k'] == 'CompoundAssignOperator'):
            return ('write', qq, 'field store through address')
        return ('read', p, 'field')
    if _ptr_to_const(tu, t):
        return ('safe-addr', n, 'converted to pointer-to-const %s' % t.s)
    if k == 'CallExpr':
        idx = [i for i, c in enumerate(p['c']) if c is n]
        return ('escape', n, 'passed as argument %d of %s as %s' % (idx[0] if idx else -1, F.src(p['c'][0]), t.s))
    if k == 'ReturnStmt':
        return ('escape', n, 'returned as %s' % t.s)
    if k in ('BinaryOperator',) and p['op'] == '=':
        return ('escape', n, 'stored into %s as %s' % (F.src(p['c'][0]), t.s))
    if k in ('DeclStmt', 'InitListExpr'):
        return ('escape', n, 'initialises a %s' % t.s)
    if k == 'UnaryOperator' and p['op'] == '!':
        return ('safe-addr', p, 'null test')
    if k in ('IfStmt', 'WhileStmt', 'ForStmt', 'DoStmt', 'CompoundStmt'):
        return ('safe-addr', p, 'value unused / condition')
    return ('escape', n, 'used by %s as %s' % (k, t.s))


def written_fields(tu):
    """(record, field) pairs stored to anywhere in the unit, and records wholly assigned/memset —
    a type-based may-write summary"""
    wf = set()
    whole = set()
    for f in tu.func_list:
        for n in f.walk():
            tgt = None
            if n['k'] in ('BinaryOperator', 'CompoundAssignOperator') and (n['op'] == '=' or n['k'] == 'CompoundAssignOperator'):
                tgt = F.strip(n['c'][0])
            elif n['k'] == 'UnaryOperator' and n['op'] in ('++', '--'):
                tgt = F.strip(n['c'][0])
            if tgt is None:
                continue
            x = tgt
            while x is not None and x['k'] in ('MemberExpr', 'ArraySubscriptExpr'):
                if x['k'] == 'MemberExpr':
                    wf.add((x.get('rec'), x['n']))
                x = F.strip(x['c'][0], explicit=False)
            t = tu.type(tgt)
            if t is not None and t.rec:
                whole.add(t.rec)
    return wf, whole


def record_closure(tu, rec):
    """rec and the records nested by value inside it"""
    out, st = set(), [rec]
    while st:
        r = st.pop()
        if r in out or r not in tu.records:
            continue
        out.add(r)
        for fl in tu.records[r]['fields']:
            t = tu.types[fl['t']]
            while t.kind == 'array':
                t = tu.types[t.elem]
            if t.rec:
                st.append(t.rec)
    return out


def sentinel_only(tu, uses, trees_by_owner, holder):
    """identity-sentinel idiom: the static's address is stored only in the const pointer variable
    `holder`, and every use of that variable is an ==/!= comparison, a return, or a copy into a
    local variable (one level; the copy's own uses are not followed — stated assumption)"""
    if not holder.get('const_obj'):
        return False, 'holder %s is not const' % holder['name']
    n_uses = 0
    for owner, tree, ref in uses.get(holder['d'], []):
        n_uses += 1
        n, p = ref, tree.parent(ref)
        while p is not None and p['k'] in F.CASTS:
            n, p = p, tree.parent(p)
        if p is None:
            return False, 'used in an initialiser'
        if p['k'] == 'BinaryOperator' and p['op'] in ('==', '!='):
            continue
        if p['k'] == 'ReturnStmt':
            continue
        if p['k'] == 'DeclStmt':
            continue
        if p['k'] == 'BinaryOperator' and p['op'] == '=' and p['c'][1] is n and F.strip(p['c'][0])['k'] == 'DeclRefExpr' \
                and F.strip(p['c'][0]).get('dk') in ('local', 'param'):
            continue
        oname = owner.name if hasattr(owner, 'name') else owner['name']
        return False, 'use of %s in %s line %d is %s, not a comparison/return/local copy' % (holder['name'], oname, ref['l'], p['k'])
    return True, '%d uses of %s: comparisons, returns, local copies' % (n_uses, holder['name'])


def rf5(run, units=('mir', 'gen', 'c2mir')):
    rule = 'RF5'
    run.rule(rule, 'every variable with static storage in a library unit is const and never written, or is never written '
                   'and its address never escapes into a pointer through which its type is written')
    for u in units:
        tu = run.tu(u)
        wf, whole = written_fields(tu)
        trees = []
        for f in tu.func_list:
            trees.append((f, f.body))
        for g in tu.globals:
            if g.get('init') is not None:
                trees.append((g, g['init']))
        # index uses by decl id
        uses = {}
        for owner, root in trees:
            tree = None
            for n in F.walk(root):
                if n['k'] == 'DeclRefExpr' and n.get('dk') in ('global', 'slocal'):
                    if tree is None:
                        tree = Tree(root)
                    uses.setdefault(n['d'], []).append((owner, tree, n))
        for g in tu.globals:
            if g.get('extern_decl'):
                continue
            name = g['name']
            t = tu.type(g['t'])
            where = g.get('func') or '<file scope>'
            ident = (u, g['file'], where, name)
            relfile = g['file'].replace(F.REPO + '/', '')
            cls = []
            for owner, tree, ref in uses.get(g['d'], []):
                kind, node, info = classify(tu, tree, ref)
                oname = owner.name if hasattr(owner, 'name') else 'initialiser of ' + owner['name']
                cls.append((kind, node, info, oname))
            writes = [c for c in cls if c[0] == 'write']
            escapes = [c for c in cls if c[0] == 'escape']
            verdict = None
            if g.get('tls'):
                verdict = 'thread-local'
            elif writes:
                exc = run.exception(rule, name)
                if exc:
                    verdict = 'exception: ' + exc
                else:
                    run.ob(rule, ident, False)
                    seenw = set()
                    for k, node, info, oname in writes:
                        lv = F.src(F.strip(node['c'][0]))
                        if (oname, lv) in seenw:
                            continue
                        seenw.add((oname, lv))
                        run.violation(rule, where, 'static %s: write %s in %s' % (name, lv, oname),
                                      'process-wide variable %s (%s) is written in %s (%s, line %d) — shared by all '
                                      'contexts and threads' % (name, t.s, oname, F.src(node)[:80], node['l']),
                                      file=relfile, line=g['line'])
                    continue
            elif escapes:
                # type-based may-write: is the object's type written through any pointer in this unit?
                et = t
                while et.kind == 'array':
                    et = tu.types[et.elem]
                mutable_via = None
                if et.rec:
                    recs = record_closure(tu, et.rec)
                    hit = sorted((r, fl) for (r, fl) in wf if r in recs)
                    if hit:
                        mutable_via = 'field %s.%s is stored to elsewhere in the unit' % hit[0]
                    elif recs & whole:
                        mutable_via = 'objects of type %s are assigned as a whole elsewhere in the unit' % sorted(recs & whole)[0]
                else:
                    mutable_via = 'scalar/array object reachable through a non-const %s pointer' % et.s
                exc = run.exception(rule, name)
                sent = None
                if mutable_via is not None and len(cls) == 1 and escapes[0][3].startswith('initialiser of '):
                    hname = escapes[0][3][len('initialiser of '):]
                    holders = [h for h in tu.globals if h['name'] == hname and h.get('init') is not None]
                    if len(holders) == 1:
                        okk, why = sentinel_only(tu, uses, None, holders[0])
                        if okk:
                            sent = 'identity sentinel: only use is the initialiser of const %s; %s' % (hname, why)
                if sent is not None:
                    verdict = sent
                elif mutable_via is None:
                    verdict = 'address escapes (%s) but no field of %s is ever stored to in this unit' % (escapes[0][2], et.rec)
                elif exc:
                    verdict = 'exception: ' + exc
                else:
                    run.ob(rule, ident, False)
                    seene = set()
                    for k, node, info, oname in escapes:
                        if oname in seene:
                            continue
                        seene.add(oname)
                        run.violation(rule, where, 'static %s: address escapes in %s' % (name, oname),
                                      'non-const process-wide variable %s (%s): its address escapes in %s (%s, line %d) and %s'
                                      % (name, t.s, oname, info, node['l'], mutable_via),
                                      file=relfile, line=g['line'])
                    continue
            else:
                if g['const_obj']:
                    verdict = 'const, %d uses, none writes' % len(cls)
                else:
                    verdict = 'not const but never written and address never escapes mutably (%d uses)' % len(cls)
                    run.info(rule, '%s:%d: %s is never written; could be declared const' % (relfile, g['line'], name))
            run.ob(rule, ident, True, {'variable': name, 'type': t.s, 'where': '%s:%d %s' % (relfile, g['line'], where),
                                       'uses': len(cls), 'verdict': verdict})


def nonreentrant(run, units=('mir', 'gen', 'c2mir')):
    rule = 'RF5-libc'
    run.rule(rule, 'no library function calls a libc routine that keeps hidden process-wide state')
    for u in units:
        tu = run.tu(u)
        for f in tu.func_list:
            bad = [n for n in f.walk() if n['k'] == 'DeclRefExpr' and n.get('dk') == 'func' and n['n'] in NONREENTRANT]
            run.ob(rule, (u, f.name), not bad)
            for n in bad:
                run.violation(rule, f, 'call %s' % n['n'], 'libc function %s keeps process-wide state; contexts on '
                                                          'different threads would interfere' % n['n'], line=n['l'])


# ---------------------------------------------------------------------------------------------
# RF5s: the shared error sentinel is compared and returned, never linked into a tree
# ---------------------------------------------------------------------------------------------

def rf5s(run):
    from lib import facts as F
    rule = 'RF5s'
    run.rule(rule, 'c2mir: err_node points to one static node shared by all contexts; it is an identity sentinel.  A local variable that '
                   'may hold it (assigned `err_node`, or the result of a function of the unit that returns `err_node`) is not passed '
                   'to a function (op_append, new_node…) on any path on which it has not been tested against err_node or assigned again: a '
                   'linked sentinel becomes memory that every context reads and writes')
    tu = run.tu('c2mir')
    # functions that can return the sentinel
    ret_err = set()
    for g in tu.func_list:
        for x in g.walk():
            if x['k'] == 'ReturnStmt' and x.get('c') and x['c'][0] is not None and F.src(F.strip(x['c'][0])) == 'err_node':
                ret_err.add(g.name)
    # ... or return a local that may hold it: assigned err_node, the result of such a function, or the result of a parser
    # function called through a parameter (try_f)
    def may_err(g, e):
        e = F.strip(e)
        if F.src(e) == 'err_node':
            return True
        if e['k'] == 'CallExpr':
            if e.get('callee') in ret_err:
                return True
            c0 = F.strip(e['c'][0])
            while c0['k'] == 'ParenExpr':
                c0 = F.strip(c0['c'][0])
            if not e.get('callee') and c0['k'] == 'DeclRefExpr' and c0.get('dk') == 'param':
                return True
        return False
    changed = True
    while changed:
        changed = False
        for g in tu.func_list:
            if g.name in ret_err or not g.file.startswith('/repo'):
                continue
            rv = {F.src(F.strip(x['c'][0])) for x in g.walk() if x['k'] == 'ReturnStmt' and x.get('c') and x['c'][0] is not None
                  and F.strip(x['c'][0])['k'] == 'DeclRefExpr'}
            if not rv:
                continue
            hit = False
            for x in g.walk():
                if x['k'] == 'BinaryOperator' and x['op'] == '=' and F.src(F.strip(x['c'][0])) in rv and may_err(g, x['c'][1]):
                    hit = True
                elif x['k'] == 'DeclStmt':
                    for d in x.get('decls', []):
                        if d['n'] in rv and d.get('init') is not None and may_err(g, d['init']):
                            hit = True
                if hit:
                    break
            if hit:
                ret_err.add(g.name)
                changed = True
    # functions that write through, or store, their k-th parameter (fixpoint); a function that only reads the node
    # (get_node_pos) does not make the sentinel shared state
    fmap = {g.name: g for g in tu.func_list}
    sink = set()   # (function name, parameter index)

    def base_name(e):
        e = F.strip(e)
        while e['k'] in ('MemberExpr', 'ArraySubscriptExpr', 'ParenExpr') or (e['k'] == 'UnaryOperator' and e.get('op') in ('*', '&')):
            e = F.strip(e['c'][0])
        return e['n'] if e['k'] == 'DeclRefExpr' else None
    changed = True
    while changed:
        changed = False
        for g in tu.func_list:
            pn = {q['n']: k for k, q in enumerate(g.params)}
            if not pn or g.body is None:
                continue
            for x in g.walk():
                hit = None
                if x['k'] in ('BinaryOperator', 'CompoundAssignOperator') and x['op'].endswith('=') and x['op'] not in ('==', '!=', '<=', '>='):
                    l_, r_ = F.strip(x['c'][0]), F.strip(x['c'][1])
                    if l_['k'] != 'DeclRefExpr' and base_name(l_) in pn and l_['k'] == 'MemberExpr' and (l_.get('arrow') or F.strip(l_['c'][0])['k'] != 'DeclRefExpr'):
                        hit = base_name(l_)       # write through the parameter
                    elif r_['k'] == 'DeclRefExpr' and r_['n'] in pn and l_['k'] != 'DeclRefExpr':
                        hit = r_['n']             # the parameter is stored in memory
                elif x['k'] == 'CallExpr' and x.get('callee') in fmap:
                    for k, a_ in enumerate(F.call_args(x)):
                        a0 = F.strip(a_)
                        if a0['k'] == 'DeclRefExpr' and a0['n'] in pn and (x['callee'], k) in sink:
                            hit = a0['n']
                            if (g.name, pn[hit]) not in sink:
                                sink.add((g.name, pn[hit]))
                                changed = True
                    hit = None
                if hit is not None and (g.name, pn[hit]) not in sink:
                    sink.add((g.name, pn[hit]))
                    changed = True
    n = 0
    for f in tu.func_list:
        if f.cfg_raw is None or not f.file.startswith('/repo'):
            continue
        starts = []
        for x in f.walk():
            if x['k'] == 'BinaryOperator' and x['op'] == '=' and F.strip(x['c'][0])['k'] == 'DeclRefExpr' and F.strip(x['c'][0]).get('dk') == 'local':
                r = F.strip(x['c'][1])
                if F.src(r) == 'err_node' or (r['k'] == 'CallExpr' and r.get('callee') in ret_err):
                    starts.append((x, F.strip(x['c'][0])['n']))
        if not starts:
            continue
        cfg = f.cfg
        for sx, v in starts:
            sb = cfg.block_of(sx)
            if sb is None:
                continue
            bad = None
            seen = set()
            work = [(sb, True)]   # (block, start inside the block after the assignment)
            while work and bad is None:
                b, from_assign = work.pop()
                if (b, from_assign) in seen:
                    continue
                seen.add((b, from_assign))
                B = cfg.blocks[b]
                active = not from_assign
                killed = False
                for e in cfg.top_elems(B):
                    if from_assign and not active:
                        if any(y is sx for y in F.walk(e)):
                            active = True
                        continue
                    for y in cfg.local_walk(e):
                        if y['k'] == 'CallExpr' and not (y.get('callee') or '').startswith(('VARR_', 'HTAB_')):
                            for k_, a_ in enumerate(F.call_args(y)):
                                a0 = F.strip(a_)
                                if a0['k'] == 'DeclRefExpr' and a0['n'] == v and (y.get('callee') not in fmap or (y['callee'], k_) in sink):
                                    bad = y
                        if bad is not None:
                            break
                        if y['k'] == 'BinaryOperator' and y['op'] == '=' and F.strip(y['c'][0])['k'] == 'DeclRefExpr' and F.strip(y['c'][0])['n'] == v and y is not sx:
                            killed = True
                    if bad is not None or killed:
                        break
                if bad is not None or killed:
                    continue
                if B.cond is not None and len(B.succs) == 2:
                    ct = F.src(F.strip(B.cond)).replace(' ', '').strip('()')
                    cn = F.strip(B.cond)
                    if cn['k'] == 'BinaryOperator' and cn['op'] in ('==', '!=') and F.src(F.strip(cn['c'][1])) == 'err_node':
                        l_ = F.strip(cn['c'][0])
                        if l_['k'] == 'BinaryOperator' and l_['op'] == '=' and F.src(F.strip(l_['c'][0])) == v:
                            ct = '%s%serr_node' % (v, cn['op'])
                    if ct == '%s==err_node' % v:
                        if B.succs[0] is not None:
                            work.append((B.succs[0], False))
                        continue
                    if ct == '%s!=err_node' % v:
                        if B.succs[1] is not None:
                            work.append((B.succs[1], False))
                        continue
                for s_ in cfg.live_succs(b):
                    work.append((s_, False))
            n += 1
            run.functions_analysed.add(('c2mir', f.name))
            run.ob(rule, (f.name, sx['l']), bad is None, {'site': '%s:%d %s' % (f.relfile(), sx['l'], f.name), 'variable': v} if n % 10 == 1 or bad is not None else None)
            if bad is not None:
                run.violation(rule, f, 'sentinel handed to %s' % (bad.get('callee') or 'a function'), '`%s` receives the sentinel err_node at line %d and is passed to '
                              '`%s` at line %d without having been tested against err_node: the static node becomes part of a syntax tree, and two '
                              'contexts parsing in different threads read and write the trees of each other through it' % (v, sx['l'], F.src(bad)[:60], bad['l']),
                              line=bad['l'])
    return n
