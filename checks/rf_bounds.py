"""RF13 bounded range accesses on fixed-size buffers (mir-reduce.h), RF14 padding of type-punned temporaries."""
from lib import facts as F
import rf_flow


def array_member_len(tu, e):
    """if e is  X.arr / X->arr  with arr a fixed-size array member, return (text, n) else None"""
    e = F.strip(e)
    if e['k'] == 'MemberExpr':
        t = tu.type(e)
        if t is not None and t.kind == 'array' and t.n:
            return F.src(e), t.n
    return None


def elem_address(tu, e):
    """&X[i] or X + i over a fixed-size array member -> (array text, length, index node)"""
    e = F.strip(e)
    if e['k'] == 'UnaryOperator' and e['op'] == '&':
        s = F.strip(e['c'][0])
        if s['k'] == 'ArraySubscriptExpr':
            am = array_member_len(tu, s['c'][0])
            if am:
                return am[0], am[1], s['c'][1]
    if e['k'] == 'BinaryOperator' and e['op'] == '+':
        am = array_member_len(tu, e['c'][0])
        if am:
            return am[0], am[1], e['c'][1]
    am = array_member_len(tu, e)
    if am:
        return am[0], am[1], None
    return None


def vars_of(*nodes):
    s = set()
    for n in nodes:
        if n is None:
            continue
        for x in F.walk(n):
            if x['k'] == 'DeclRefExpr' and x.get('dk') in ('local', 'param'):
                s.add(x['n'])
    return s


def assigned_in_elem(cfg, e):
    out = set()
    for n in cfg.local_walk(e):
        if n['k'] in ('BinaryOperator', 'CompoundAssignOperator') and (n['op'] == '=' or n['k'] == 'CompoundAssignOperator'):
            l = F.strip(n['c'][0])
            if l['k'] == 'DeclRefExpr':
                out.add(l['n'])
        elif n['k'] == 'UnaryOperator' and n['op'] in ('++', '--'):
            l = F.strip(n['c'][0])
            if l['k'] == 'DeclRefExpr':
                out.add(l['n'])
        elif n['k'] == 'DeclStmt':
            for d in n['decls']:
                out.add(d['n'])
    return out


def find_guard(tu, f, access, idx, length, bound, _depth=0):
    """a dominating test that establishes idx + length <= bound on the path to the access, with no assignment to the
    variables involved in between.  Returns a description or None."""
    cfg = f.cfg
    ab = cfg.block_of(access)
    if ab is None:
        return None
    idom = cfg.dominators()
    want = '(%s + %s)' % (F.src(idx), F.src(length)) if idx is not None else F.src(length)
    want2 = '(%s + %s)' % (F.src(length), F.src(idx)) if idx is not None else None
    vs = vars_of(idx, length)
    for B in cfg.blocks.values():
        if B.cond is None or len(B.succs) != 2:
            continue
        c = F.strip(B.cond)
        if c['k'] != 'BinaryOperator' or c['op'] not in ('>', '<=', '>=', '<'):
            continue
        lhs, rhs = F.src(c['c'][0]), F.strip(c['c'][1])
        k = F.const_value(rhs)
        via = ''
        if k is None and lhs in (want, want2) and rhs['k'] == 'DeclRefExpr' and rhs.get('dk') in ('local', 'param') and _depth < 1:
            # idx + len <= V: enough when V + (something unsigned) <= K is established on the same path
            import re as _re
            for B2 in cfg.blocks.values():
                if B2.cond is None or len(B2.succs) != 2:
                    continue
                c2 = F.strip(B2.cond)
                if c2['k'] != 'BinaryOperator' or c2['op'] != '>':
                    continue
                k2 = F.const_value(F.strip(c2['c'][1]))
                l2 = F.strip(c2['c'][0])
                if k2 is None or k2 > bound or l2['k'] != 'BinaryOperator' or l2['op'] != '+':
                    continue
                if rhs['n'] not in (F.src(F.strip(l2['c'][0])), F.src(F.strip(l2['c'][1]))):
                    continue
                ok2 = B2.succs[1]
                if ok2 is not None and (ok2 == ab or cfg.dominates(ok2, ab, idom)):
                    # the bounding variable must not change between its own test and the access either
                    k = k2
                    via = ' through %s <= %s (line %d)' % (rhs['n'], F.src(c2), c2['l'])
                    vs = vs | {rhs['n']}
                    break
        if k is None or lhs not in (want, want2):
            continue
        # which successor is the "within bounds" one
        if c['op'] == '>' and k <= bound:
            ok_succ = B.succs[1]
        elif c['op'] == '<=' and k <= bound:
            ok_succ = B.succs[0]
        elif c['op'] == '>=' and k <= bound + 0 and k - 1 <= bound:   # x >= k false => x <= k-1
            ok_succ = B.succs[1]
        elif c['op'] == '<' and k - 1 <= bound:
            ok_succ = B.succs[0]
        else:
            continue
        if ok_succ is None or not (ok_succ == ab or cfg.dominates(ok_succ, ab, idom)):
            continue
        # the failing edge must not lead to the access as well (an if without else joins right after the test)
        bad_succ = B.succs[0] if ok_succ == B.succs[1] else B.succs[1]
        if bad_succ is not None and (bad_succ == ab or ab in cfg.reachable_from(bad_succ, avoid=lambda b: b == B.id)):
            continue
        # no assignment to the variables on the way: blocks reachable from ok_succ (not re-entering B) that reach ab
        fwd = cfg.reachable_from(ok_succ, avoid=lambda b: b == B.id)
        between = [b for b in fwd if b == ab or ab in cfg.reachable_from(b, avoid=lambda x: x == B.id)]
        clobber = None
        for b in between:
            for e in cfg.blocks[b].elems:
                if b == ab and any(x is access for x in F.walk(e)):
                    break
                hit = assigned_in_elem(cfg, e) & vs
                if hit:
                    clobber = (sorted(hit), e['l'])
                    break
            if clobber:
                break
        if clobber:
            continue
        return '%s (line %d)%s, bound %d <= array length %d' % (F.src(c), c['l'], via, k, bound)
    return None


def helper_overrun(tu, g, ptr_params, len_param):
    """accesses of constant extent through a pointer parameter of a (ptr…, len) helper that are not justified by a lower bound on
    len established on the path"""
    import rf_proto
    out = []
    cfg = g.cfg
    for x in g.walk():
        if x['k'] != 'CallExpr' or x.get('callee') not in ('memcpy', 'memmove', 'memset'):
            continue
        a = F.call_args(x)
        n = F.const_value(F.strip(a[2]))
        if n is None:
            continue  # variable extent: the length parameter itself (or derived) — covered by the caller's guard
        for role, pe in (('writes', a[0]),) + ((('reads', a[1]),) if x['callee'] != 'memset' else ()):
            e = F.strip(pe)
            off = 0
            base = e
            if e['k'] == 'BinaryOperator' and e['op'] == '+':
                base = F.strip(e['c'][0])
                off = F.const_value(F.strip(e['c'][1]))
                if off is None:
                    continue
            if base['k'] != 'DeclRefExpr' or base['n'] not in ptr_params:
                continue
            b = cfg.block_of(x)
            lb = 0
            for c, t in (rf_proto.dominating_conditions(cfg, b) if b is not None else []):
                import re as _r
                m = _r.fullmatch(r'\(%s (>|>=|<=|<) (\d+)\)' % _r.escape(len_param), c)
                if not m:
                    continue
                op, k = m.group(1), int(m.group(2))
                if t and op == '>':
                    lb = max(lb, k + 1)
                elif t and op == '>=':
                    lb = max(lb, k)
                elif (not t) and op == '<=':
                    lb = max(lb, k + 1)
                elif (not t) and op == '<':
                    lb = max(lb, k)
            if lb < off + n:
                out.append((x, '%s %s %d bytes at %s+%d although only %s bytes are covered by the caller\'s bound check (the path '
                               'establishes %s >= %d at most): the access can run past the buffer' %
                            (g.name, role, n, base['n'], off, len_param, len_param, lb)))
    return out


def rf13(run, header='mir-reduce.h', unit='mir'):
    rule = 'RF13'
    run.rule(rule, 'every variable-length block access (memcpy source/destination, reader-callback destination) on a fixed-size '
                   'array member in the decoder of mir-reduce.h is dominated by a test of index+length against a constant not larger than the '
                   'array, with no assignment to the variables in between')
    tu = run.tu(unit)
    n = 0
    dec = tu.reachable(['reduce_decode_start', 'reduce_decode_get', 'reduce_decode_finish', 'reduce_decode'])
    funcs = [f for f in tu.func_list if f.file.endswith('/' + header) and f.name in dec]
    if len(funcs) < 3:
        raise F.AnalysisBroken('decoder functions of %s not found' % header)
    for f in funcs:
        run.functions_analysed.add((tu.unit, f.name))
        for call in [x for x in f.walk() if x['k'] == 'CallExpr']:
            args = F.call_args(call)
            callee = call.get('callee')
            ranges = []
            if callee in ('memcpy', 'memmove') and len(args) == 3:
                ranges = [('destination', args[0], args[2]), ('source', args[1], args[2])]
            elif callee == 'memset' and len(args) == 3:
                ranges = [('destination', args[0], args[2])]
            elif callee is None and len(args) >= 2:
                # indirect call: a reader/writer callback (buf, len, aux)
                c0 = F.strip(call['c'][0])
                t = tu.type(c0)
                ranges = [('callback buffer', args[0], args[1])]
            elif callee in tu.funcs and any(elem_address(tu, a) is not None and elem_address(tu, a)[2] is not None for a in args):
                # a helper of the unit receives pointers into the fixed buffers plus a length: the caller must guard idx + len,
                # and the helper must stay within [ptr, ptr + len)
                lens = [a for a in args if elem_address(tu, a) is None and tu.type(F.strip(a)) is not None
                        and tu.type(F.strip(a)).kind == 'int' and F.const_value(F.strip(a)) is None]
                if len(lens) == 1:
                    for j, a in enumerate(args):
                        if elem_address(tu, a) is not None and elem_address(tu, a)[2] is not None:
                            ranges.append(('helper %s argument %d' % (callee, j + 1), a, lens[0]))
                    g = tu.funcs[callee]
                    li = [j for j, a in enumerate(args) if a is lens[0]][0]
                    pis = [j for j, a in enumerate(args) if elem_address(tu, a) is not None and elem_address(tu, a)[2] is not None]
                    for site, msg in helper_overrun(tu, g, [g.params[j]['n'] for j in pis if j < len(g.params)], g.params[li]['n']):
                        n += 1
                        run.ob(rule, (g.name, site['l']), False)
                        run.violation(rule, g, 'fixed-size access in range helper %s' % g.name, msg, line=site['l'])
                    n += 1
                    run.ob(rule, (callee, 'helper-checked'), True, {'helper': callee, 'length parameter': g.params[li]['n']})
            for role, ptr, length in ranges:
                ea = elem_address(tu, ptr)
                if ea is None:
                    continue
                arr, alen, idx = ea
                lv = F.const_value(F.strip(length))
                n += 1
                ident = (f.name, arr, role, call['l'])
                if lv is not None and idx is None:
                    ok = lv <= alen
                    run.ob(rule, ident, ok, {'site': '%s:%d %s' % (f.relfile(), call['l'], f.name), 'access': '%s of %s' % (role, F.src(call)[:70]),
                                             'proof': 'constant length %d <= %d' % (lv, alen)})
                    if not ok:
                        run.violation(rule, f, '%s %s' % (role, arr), 'constant length %d exceeds %s[%d]' % (lv, arr, alen), line=call['l'])
                    continue
                g = find_guard(tu, f, call, idx, length, alen)
                run.ob(rule, ident, g is not None, {'site': '%s:%d %s' % (f.relfile(), call['l'], f.name),
                                                    'access': '%s [%s, +%s) of %s[%d]' % (role, F.src(idx) if idx else '0', F.src(length), arr, alen),
                                                    'proof': g or 'NO DOMINATING BOUND TEST'})
                if g is None:
                    run.violation(rule, f, '%s %s[%s .. +%s]' % (role, arr, F.src(idx) if idx else '0', F.src(length)),
                                  'the %s range %s[%s .. %s + %s) of a %d-element buffer is not guarded: no dominating test of '
                                  '%s + %s against the buffer length (a crafted stream makes the access run past the buffer)'
                                  % (role, arr, F.src(idx) if idx else '0', F.src(idx) if idx else '0', F.src(length), alen,
                                     F.src(idx) if idx else '0', F.src(length)), line=call['l'])
        # element accesses indexed by an unsigned difference a - b need a dominating  a < b  rejection
        for sub in [x for x in f.walk() if x['k'] == 'ArraySubscriptExpr']:
            am = array_member_len(tu, sub['c'][0])
            ix = F.strip(sub['c'][1])
            if not am or ix['k'] != 'BinaryOperator' or ix['op'] != '-':
                continue
            a, b = F.src(ix['c'][0]), F.src(ix['c'][1])
            cfg = f.cfg
            ab = cfg.block_of(sub)
            idom = cfg.dominators()
            proof = None
            for B in cfg.blocks.values():
                if B.cond is None or len(B.succs) != 2:
                    continue
                c = F.strip(B.cond)
                if c['k'] == 'BinaryOperator' and ((c['op'] == '<' and F.src(c['c'][0]) == a and F.src(c['c'][1]) == b) or
                                                    (c['op'] == '>' and F.src(c['c'][0]) == b and F.src(c['c'][1]) == a)):
                    okb, bad = B.succs[1], B.succs[0]
                    if okb is not None and (okb == ab or cfg.dominates(okb, ab, idom)) and \
                            not (bad is not None and (bad == ab or ab in cfg.reachable_from(bad, avoid=lambda x: x == B.id))):
                        vs = vars_of(ix)
                        fwd = cfg.reachable_from(okb, avoid=lambda x: x == B.id)
                        clob = False
                        for bb in fwd:
                            if bb == ab or ab in cfg.reachable_from(bb, avoid=lambda x: x == B.id):
                                for e in cfg.blocks[bb].elems:
                                    if bb == ab and any(x is sub for x in F.walk(e)):
                                        break
                                    if assigned_in_elem(cfg, e) & vs:
                                        clob = True
                        if not clob:
                            proof = '%s rejected at line %d' % (F.src(c), c['l'])
            n += 1
            run.ob(rule, (f.name, am[0], 'index-difference', sub['l']), proof is not None,
                   {'site': '%s:%d %s' % (f.relfile(), sub['l'], f.name), 'access': F.src(sub), 'proof': proof or 'NO REJECTION OF a < b'})
            # the array is filled front to back at index a (a++ after each store): entries [0, a) are written, so b must be >= 1
            stores = [F.strip(x['c'][0]) for x in f.walk() if x['k'] == 'BinaryOperator' and x['op'] == '='
                      and F.strip(x['c'][0])['k'] == 'ArraySubscriptExpr' and F.src(F.strip(x['c'][0])['c'][0]) == am[0]]
            if stores and all(F.src(st_['c'][1]).replace('++', '').strip() == a for st_ in stores):
                zproof = None
                for B in cfg.blocks.values():
                    if B.cond is None or len(B.succs) != 2:
                        continue
                    c = F.strip(B.cond)
                    zero_on_true = c['k'] == 'BinaryOperator' and ((c['op'] == '==' and F.src(c['c'][0]) == b and F.const_value(F.strip(c['c'][1])) == 0)
                                                                  or (c['op'] == '<' and F.src(c['c'][0]) == b and F.const_value(F.strip(c['c'][1])) == 1))
                    zero_on_false = (c['k'] == 'BinaryOperator' and c['op'] == '!=' and F.src(c['c'][0]) == b and F.const_value(F.strip(c['c'][1])) == 0) \
                        or F.src(c) == b
                    if not (zero_on_true or zero_on_false):
                        continue
                    okb, bad = (B.succs[1], B.succs[0]) if zero_on_true else (B.succs[0], B.succs[1])
                    if okb is not None and (okb == ab or cfg.dominates(okb, ab, idom)) and \
                            not (bad is not None and (bad == ab or ab in cfg.reachable_from(bad, avoid=lambda x: x == B.id))):
                        clob = False
                        for bb in cfg.reachable_from(okb, avoid=lambda x: x == B.id):
                            if bb == ab or ab in cfg.reachable_from(bb, avoid=lambda x: x == B.id):
                                for e in cfg.blocks[bb].elems:
                                    if bb == ab and any(x is sub for x in F.walk(e)):
                                        break
                                    if b in assigned_in_elem(cfg, e):
                                        clob = True
                        if not clob:
                            zproof = '%s == 0 rejected at line %d' % (b, c['l'])
                n += 1
                run.ob(rule, (f.name, am[0], 'written-prefix', sub['l']), zproof is not None,
                       {'site': '%s:%d %s' % (f.relfile(), sub['l'], f.name), 'access': F.src(sub),
                        'proof': zproof or 'NO REJECTION OF %s == 0' % b, 'stores': [F.src(s_)[:40] for s_ in stores]})
                if zproof is None:
                    run.violation(rule, f, 'unwritten entry %s' % F.src(sub),
                                  '%s is filled front to back at index %s, so only entries below %s are written; the read %s with %s == 0 '
                                  'takes the entry not written yet (uninitialised memory) and uses it as a buffer position: a crafted '
                                  'stream makes the following copy read outside the buffer' % (am[0], a, a, F.src(sub), b), line=sub['l'])
            if proof is None:
                run.violation(rule, f, 'index %s of %s' % (F.src(ix), am[0]),
                              '%s is indexed by the unsigned difference %s without a dominating rejection of %s < %s: a crafted stream '
                              'makes the index wrap around' % (am[0], F.src(ix), a, b), line=sub['l'])
    return n


def rf13_exits(run):
    """reduce_decode_get: every way out of the element loop other than the two successful returns sets ok_p = FALSE"""
    rule = 'RF13e'
    run.rule(rule, 'reduce_decode_get: every `break` out of the element loop reaches `data->ok_p = FALSE; return -1`, and every other '
                   'return yields a decoded byte or the verified end of stream')
    tu = run.tu('mir')
    f = tu.func('reduce_decode_get')
    cfg = f.cfg
    fails = rf_flow.blocks_with(cfg, lambda x: x['k'] == 'BinaryOperator' and x['op'] == '=' and F.src(F.strip(x['c'][0])).endswith('ok_p')
                                and F.const_value(F.strip(x['c'][1])) == 0)
    loops = [n for n in f.walk() if n['k'] == 'ForStmt']
    if not loops or not fails:
        raise F.AnalysisBroken('reduce_decode_get: element loop or failure exit not found')
    loop = loops[0]
    breaks = [n for n in F.walk(loop) if n['k'] == 'BreakStmt' and
              next((a for a in f.ancestors(n) if a['k'] in ('ForStmt', 'WhileStmt', 'DoStmt', 'SwitchStmt')), None) is loop]
    # the block after the loop must be the failure block: successors of blocks terminated by those breaks
    nb = 0
    for B in cfg.blocks.values():
        if B.term is not None and B.term['k'] == 'BreakStmt' and any(B.term is b for b in breaks):
            nb += 1
            tgt = B.succs[0]
            ok = tgt in fails
            run.ob(rule, ('break', B.term['l']), ok, {'break at line': B.term['l'], 'lands on failure exit': ok})
            if not ok:
                run.violation(rule, f, 'break line-class', 'a break out of the element loop does not reach ok_p = FALSE', line=B.term['l'])
    if nb < 5:
        run.analysis_broken(rule, 'only %d breaks of the element loop found' % nb)
    # returns inside the loop: value is data->buf[...] or guarded by the hash comparison
    for r in [n for n in F.walk(loop) if n['k'] == 'ReturnStmt']:
        v = F.src(F.kids(r)[0]) if F.kids(r) else ''
        ok = 'buf[' in v
        run.ob(rule, ('return', r['l']), ok, {'return': v})
        if not ok:
            run.violation(rule, f, 'return in loop', 'return %s inside the element loop is not a decoded byte' % v, line=r['l'])


# ---------------------------------------------------------------------------------------------

def rf14(run, entries):
    """padding: a local union written through a long double member and read through an overlapping integer member must be
    zero-initialised first (bytes 10..15 of an x86-64 long double are padding)"""
    rule = 'RF14'
    run.rule(rule, 'binary writer: a local union that is stored through its long double member and read back through an overlapping '
                   'integer member is fully initialised first, so that no indeterminate padding byte reaches the output stream')
    tu = run.tu('mir')
    fs = tu.reachable(entries)
    n = 0
    for fn in sorted(fs):
        f = tu.funcs[fn]
        for d in [x for x in f.walk() if x['k'] == 'DeclStmt']:
            for v in d['decls']:
                t = tu.types[v['t']]
                if t.kind != 'union' or t.rec not in tu.records:
                    continue
                flds = tu.records[t.rec]['fields']
                ld = [fl for fl in flds if tu.types[fl['t']].c == 'long double']
                others = [fl for fl in flds if tu.types[fl['t']].c != 'long double']
                if not ld or not others:
                    continue
                name = v['n']
                stores = [x for x in f.walk() if x['k'] == 'BinaryOperator' and x['op'] == '=' and
                          F.src(F.strip(x['c'][0])) == '%s.%s' % (name, ld[0]['n'])]
                reads = [x for x in f.walk() if x['k'] == 'MemberExpr' and x['n'] in [o['n'] for o in others] and
                         F.src(x['c'][0]) == name and not _is_store_target(f, x)]
                if not stores or not reads:
                    continue
                n += 1
                init = v.get('init') is not None
                zeroed = False
                if not init:
                    first = min(s['l'] for s in stores)
                    # all words of the overlapping member assigned, or memset (&u, 0, …), before the long double store
                    cover = set()
                    for x in f.walk():
                        if x['k'] == 'BinaryOperator' and x['op'] == '=' and x['l'] <= first:
                            l = F.strip(x['c'][0])
                            if l['k'] == 'ArraySubscriptExpr' and F.src(l['c'][0]).startswith(name + '.'):
                                iv = F.const_value(F.strip(l['c'][1]))
                                if iv is not None:
                                    cover.add(iv)
                        if x['k'] == 'CallExpr' and x.get('callee') == 'memset' and x['l'] <= first and name in F.src(F.call_args(x)[0]):
                            zeroed = True
                    ot = tu.types[others[0]['t']]
                    if ot.kind == 'array' and ot.n and cover >= set(range(ot.n)):
                        zeroed = True
                    # padding lives in the last word only: assigning the last word is enough
                    if ot.kind == 'array' and ot.n and (ot.n - 1) in cover:
                        zeroed = True
                # repair idiom: the padding word is masked after the long double store and before the first read
                masked = False
                if True:
                    last_store = max(s['l'] for s in stores)
                    first_read = min(r['l'] for r in reads if r['l'] > last_store) if any(r['l'] > last_store for r in reads) else 10 ** 9
                    ot = tu.types[others[0]['t']]
                    for x in f.walk():
                        if x['k'] == 'CompoundAssignOperator' and x['op'] == '&=' and last_store <= x['l'] <= first_read:
                            l = F.strip(x['c'][0])
                            mv = F.const_value(F.strip(x['c'][1]))
                            if l['k'] == 'ArraySubscriptExpr' and F.src(l['c'][0]).startswith(name + '.') and ot.kind == 'array' and \
                                    F.const_value(F.strip(l['c'][1])) == ot.n - 1 and mv is not None and 0 <= mv <= 0xffff:
                                masked = True
                # zero-initialising *before* the store is not enough: the compiler may copy all 16 bytes of the
                # by-value argument, padding included (observed with gcc -O2 on the replay), so only masking after counts
                ok = masked
                run.ob(rule, (fn, name), ok, {'site': '%s:%d %s' % (f.relfile(), d['l'], fn), 'union': name,
                                              'long double member': ld[0]['n'], 'read through': sorted({r['n'] for r in reads}),
                                              'padding masked after the store': ok})
                if not ok:
                    run.violation(rule, f, 'union %s' % name,
                                  'union %s is stored through %s.%s (10 value bytes + 6 padding bytes) and read back through %s '
                                  'without the padding word being masked after the store: indeterminate stack bytes are written to the binary stream, so writing '
                                  'the same module twice can yield different bytes' % (name, name, ld[0]['n'],
                                                                                      '/'.join(sorted({r['n'] for r in reads}))),
                                  line=d['l'])
    return n


def _is_store_target(f, x):
    p = f.parent_of(x)
    while p is not None and p['k'] in ('ArraySubscriptExpr', 'MemberExpr'):
        x, p = p, f.parent_of(p)
    return p is not None and p['k'] == 'BinaryOperator' and p['op'] == '=' and p['c'][0] is x


def rf13c(run):
    """the encoder's element counter must advance on every call of _reduce_dict_add: the decoder counts every literal byte
    and every reference, so a skipped increment shifts all later back-reference indices"""
    rule = 'RF13c'
    run.rule(rule, 'mir-reduce.h encoder: data->curr_num is incremented on every path through _reduce_dict_add (the decoder advances '
                   'its index for every position; a path that skips the increment desynchronises all later references)')
    tu = run.tu('mir')
    f = tu.func('_reduce_dict_add')
    cfg = f.cfg
    run.functions_analysed.add(('mir', f.name))

    def inc(x):
        if x['k'] == 'UnaryOperator' and x['op'] in ('++',):
            return F.src(F.strip(x['c'][0])).endswith('curr_num')
        if x['k'] == 'CompoundAssignOperator' and x['op'] == '+=':
            return F.src(F.strip(x['c'][0])).endswith('curr_num')
        return False
    ib = rf_flow.blocks_with(cfg, inc)
    if not ib:
        run.ob(rule, ('inc',), False)
        run.violation(rule, f, 'curr_num increment', '_reduce_dict_add no longer increments data->curr_num', line=f.line)
        return
    # every path entry -> exit passes an increment block
    seen = cfg.reachable_from(cfg.entry, avoid=lambda b: b in ib)
    ok = cfg.exit not in seen
    # find an offending return for the message
    where = None
    if not ok:
        for B in cfg.blocks.values():
            if B.id in seen:
                for e in B.elems:
                    if e['k'] == 'ReturnStmt':
                        where = e['l']
    run.ob(rule, ('must-pass',), ok, {'function': f.name, 'increment sites': sorted(cfg.blocks[b].elems[0]['l'] for b in ib if cfg.blocks[b].elems),
                                      'every path passes one': ok})
    if not ok:
        run.violation(rule, f, 'path without curr_num increment',
                      'a path through _reduce_dict_add (return at line %s) does not increment data->curr_num: the encoder\'s element '
                      'numbering falls behind the decoder\'s and later references decode to the wrong bytes' % where, line=where or f.line)
    # callers: _reduce_dict_add is called once per consumed position in the encoding loop
    callers = [g.name for g in tu.func_list for n in g.walk() if n['k'] == 'CallExpr' and n.get('callee') == '_reduce_dict_add']
    run.ob(rule, ('callers',), bool(callers), {'callers': sorted(set(callers))})


# ---------------------------------------------------------------------------------------------
# RF13w: numbers read from the stream cannot make the 32-bit range tests wrap
# ---------------------------------------------------------------------------------------------

def rf13w(run):
    from lib import printexec as PE
    rule = 'RF13w'
    run.rule(rule, 'mir-reduce.h: the range tests of the decoder (`pos + len > BUF_LEN`) are computed in uint32_t; they bound the access only '
                   'if the number read from the stream cannot make the sum wrap.  _reduce_uint_read, executed abstractly for each of the 256 '
                   'first bytes with maximal continuation bytes, returns a negative value or a value below 2^28 (what the encoder writes), '
                   'and 2^28 + the length bias + the buffer length fits in 32 bits')
    tu = run.tu('mir')
    f = tu.func('_reduce_uint_read')
    run.functions_analysed.add(('mir', '_reduce_uint_read'))
    n = 0
    worst = None
    for first in range(256):
        seq = [first]

        def get(args, env, ex):
            return seq.pop(0) if seq else 255
        ex = PE.PrintExec(tu, {}, {'_reduce_get': get}, {})
        ex.retval = 'none'
        r = ex.run(f.body, {})
        if r != 'return' or ex.retval in (None, 'none'):
            raise F.AnalysisBroken('_reduce_uint_read: result for first byte 0x%02x not evaluable' % first)
        n += 1
        v = ex.retval
        ok = v < 0 or v < (1 << 28)
        run.ob(rule, ('first byte', first), ok, {'first byte': '0x%02x' % first, 'largest result': v} if first % 64 == 0 or not ok else None)
        if not ok and worst is None:
            worst = (first, v)
    if worst is not None:
        run.violation(rule, f, 'unbounded number', '_reduce_uint_read returns %d (>= 2^28) for a number starting with byte 0x%02x: the decoder adds '
                      'it to a buffer position in uint32_t, the sum wraps around, the range test passes and memcpy / the reader callback '
                      'gets a length of up to 4GB (a damaged stream makes the decoder write outside its buffer)' % (worst[1], worst[0]),
                      line=f.node['l'] if hasattr(f, 'node') else None)
    # the constants of the range tests
    g = tu.func('reduce_decode_get')
    bounds = set()
    for x in g.walk():
        if x['k'] == 'BinaryOperator' and x['op'] == '>' and F.strip(x['c'][0])['k'] == 'BinaryOperator' and F.strip(x['c'][0])['op'] == '+':
            c = F.const_value(F.strip(x['c'][1]))
            if c is not None:
                bounds.add(c)
    bias = [F.const_value(F.strip(x['c'][1])) for x in g.walk() if x['k'] == 'CompoundAssignOperator' and x['op'] == '+='
            and F.src(F.strip(x['c'][0])) == 'ref_len']
    if not bounds or not bias or None in bias:
        raise F.AnalysisBroken('reduce_decode_get: range tests / length bias not recognised')
    n += 1
    ok = (1 << 28) + max(bias) + max(bounds) < (1 << 32)
    run.ob(rule, ('sum fits',), ok, {'largest number': (1 << 28) - 1, 'bias': max(bias), 'buffer length': max(bounds)})
    if not ok:
        run.violation(rule, g, 'range sum', 'a number below 2^28 plus the bias %d plus a position up to %d does not fit in 32 bits'
                      % (max(bias), max(bounds)))
    return n


# ---------------------------------------------------------------------------------------------
# RF13h: encoder and decoder chain the check hash over the same (non-empty) buffers
# ---------------------------------------------------------------------------------------------

def _hash_update_sites(tu):
    """[(function, call-or-assignment node, length expression)] of the sites that chain check_hash; a helper whose length is its
    parameter is replaced by its call sites"""
    direct = []
    for f in tu.func_list:
        if not f.file.endswith('/mir-reduce.h'):
            continue
        for x in f.walk():
            if x['k'] == 'BinaryOperator' and x['op'] == '=' and F.src(F.strip(x['c'][0])).endswith('check_hash'):
                r = F.strip(x['c'][1])
                if r['k'] == 'CallExpr' and r.get('callee') == 'mir_hash_strict':
                    direct.append((f, x, F.strip(F.call_args(r)[1])))
    sites = []
    for f, x, ln in direct:
        if ln['k'] == 'DeclRefExpr' and ln.get('dk') == 'param':
            pi = [i for i, p in enumerate(f.params) if p['n'] == ln['n']][0]
            for g in tu.func_list:
                for c in g.walk():
                    if c['k'] == 'CallExpr' and c.get('callee') == f.name:
                        sites.append((g, c, F.strip(F.call_args(c)[pi]), 'through %s' % f.name))
        else:
            sites.append((f, x, ln, 'direct'))
    return sites


def rf13h(run):
    import rf_proto
    rule = 'RF13h'
    run.rule(rule, 'mir-reduce.h: hashing zero bytes changes the check hash, and the encoder flushes its last buffer where the decoder meets the '
                   'end tag with a possibly empty buffer (input length a multiple of the buffer length): every site that chains the check hash '
                   '(directly or through a helper) is dominated by a test that its length is not zero, on both sides')
    tu = run.tu('mir')
    sites = _hash_update_sites(tu)
    if len(sites) < 3:
        raise F.AnalysisBroken('check-hash update sites of mir-reduce.h not found (%d)' % len(sites))
    n = 0
    for f, node, ln, how in sites:
        run.functions_analysed.add(('mir', f.name))
        cfg = f.cfg
        bid = cfg.block_of(node)
        lt = F.src(ln)
        proof = None
        for ctext, truth in rf_proto.dominating_conditions(cfg, bid):
            c = ctext.replace(' ', '')
            l = lt.replace(' ', '')
            import re
            while c.startswith('(') and c.endswith(')') and c.count('(') == c.count(')'):
                c = c[1:-1]
            m = re.fullmatch(re.escape(l) + r'(==|!=|>=|>)([0-9a-fx()<+*-]+)', c)
            if not m:
                continue
            try:
                k = int(eval(m.group(2), {'__builtins__': {}}, {}))
            except Exception:
                continue
            op = m.group(1)
            nz = (op == '==' and k == 0 and not truth) or (op == '!=' and k == 0 and truth) or (op == '>=' and k >= 1 and truth) \
                or (op == '>' and k >= 0 and truth)
            if nz:
                proof = '%s is %s' % (ctext, 'true' if truth else 'false')
        # the length must not be assigned between the test and the site inside the site's own block
        n += 1
        run.ob(rule, (f.name, node['l']), proof is not None, {'site': '%s:%d %s (%s)' % (f.relfile(), node['l'], f.name, how), 'length': lt,
                                                              'proof': proof or 'NO NON-ZERO TEST'})
        if proof is None:
            run.violation(rule, f, 'check hash over %s bytes' % lt, 'the check hash is chained over %s bytes (%s) without a dominating test that '
                          'the length is not zero: hashing zero bytes changes the hash, the other side does not hash an empty buffer, and a '
                          'complete unmodified stream whose length is 0 or a multiple of the buffer length is reported as damaged' % (lt, how),
                          line=node['l'])
    return n


# ---------------------------------------------------------------------------------------------
# RF88: the users of the compression layer take its verdict and let it see the end of the stream
# ---------------------------------------------------------------------------------------------

def rf88(run):
    rule = 'RF88'
    run.rule(rule, 'mir.c, binary reader and writer: the results of reduce_decode_finish / reduce_encode_finish (the layer\'s verdict: check '
                   'hash, complete stream) are tested, not dropped; and before the decoder is finished in MIR_read_with_func it is asked '
                   'once more for a byte (reduce_decode_get), because the end element with the check hash is still unread when the data '
                   'fill the decoder\'s last buffer exactly - the raw reader must not be consulted for "end of file" before that')
    tu = run.tu('mir')
    n = 0
    for f in tu.func_list:
        if not f.file.endswith('/mir.c'):
            continue
        for x in f.walk():
            if x['k'] == 'CallExpr' and x.get('callee') in ('reduce_decode_finish', 'reduce_encode_finish'):
                run.functions_analysed.add(('mir', f.name))
                par = f.nodes[f.parent[x['i']]] if f.parent.get(x['i']) is not None else None
                used = par is not None and par['k'] not in ('CompoundStmt',)
                n += 1
                run.ob(rule, (f.name, x['callee']), used, {'site': '%s:%d %s' % (f.relfile(), x['l'], f.name), 'call': x['callee'], 'result tested': used})
                if not used:
                    run.violation(rule, f, 'result of %s dropped' % x['callee'], '%s ignores the result of %s: a stream whose check hash does not match '
                                  '(or an output error) goes unreported' % (f.name, x['callee']), line=x['l'])
                if x['callee'] == 'reduce_decode_finish':
                    cfg = f.cfg
                    idom = cfg.dominators()
                    fb = cfg.block_of(x)
                    drains = [cfg.block_of(y) for y in f.walk() if y['k'] == 'CallExpr' and y.get('callee') == 'reduce_decode_get']
                    raws = [y for y in f.walk() if y['k'] == 'CallExpr' and y.get('callee') is None and F.src(F.strip(y['c'][0])) == 'reader']
                    drained = any(d is not None and (d == fb or cfg.dominates(d, fb, idom)) for d in drains)
                    raw_before = [y for y in raws if cfg.block_of(y) is not None and (cfg.block_of(y) == fb or cfg.dominates(cfg.block_of(y), fb, idom))
                                  and y['l'] < x['l']]
                    n += 1
                    ok = drained and not raw_before
                    run.ob(rule, (f.name, 'drain'), ok, {'decoder asked for the end before finishing': drained,
                                                         'raw reader consulted first at lines': [y['l'] for y in raw_before]})
                    if not ok:
                        run.violation(rule, f, 'end of the compressed stream', '%s %s: for an image whose uncompressed length is a multiple of the '
                                      'decoder buffer the end element (check hash) is still in the stream after the last token and a valid '
                                      'file is reported as having garbage at its end' %
                                      (f.name, 'asks the raw reader for EOF before the decoder has consumed its end element' if raw_before else
                                       'finishes the decoder without asking it for the end of data'), line=x['l'])
    if n < 3:
        raise F.AnalysisBroken('compression layer finish calls not found in mir.c')
    return n


# ---------------------------------------------------------------------------------------------
# RF13s: the literal run of the encoder always ends with the byte just handed to it
# ---------------------------------------------------------------------------------------------

def rf13s(run):
    from lib import printexec as PE
    rule = 'RF13s'
    run.rule(rule, 'mir-reduce.h encoder: _reduce_output_byte (data, pos), executed abstractly from the states "no current literal run", "run '
                   'of 5 bytes" and "run of maximal length" (which it flushes), leaves a current run whose last byte is buf[pos] - whether '
                   'the run is kept as a copy (curr_symb[len-1] == buf[pos]) or as a range of the input (start + len - 1 == pos) - and whose '
                   'length is 1 after a flush and the old length + 1 otherwise; the flushed run is the old one')
    tu = run.tu('mir')
    f = tu.func('_reduce_output_byte')
    run.functions_analysed.add(('mir', f.name))
    maxlen = None
    for x in f.walk():
        if x['k'] == 'BinaryOperator' and x['op'] in ('>', '>=', '==') and 'curr_symb_len' in F.src(x['c'][0]):
            maxlen = F.const_value(F.strip(x['c'][1]))
    if not maxlen:
        raise F.AnalysisBroken('_reduce_output_byte: maximal run length not found')
    fields = {x['n'] for g in (f, tu.func('_reduce_symb_flush')) for x in g.walk() if x['k'] == 'MemberExpr' and x['n'].startswith('curr_symb')}
    ranged = 'curr_symb_start' in fields
    n = 0
    for old_len in (0, 5, maxlen):
        P = 3000
        S = P - old_len
        env = {'pos': P, 'encode_data->curr_symb_len': old_len, 'data->buf[%d]' % P: 77, 'data->u.encode.curr_symb_len': old_len}
        if ranged:
            env['encode_data->curr_symb_start'] = S
            env['data->u.encode.curr_symb_start'] = S
        flushed = []

        def flush(args, env_, ex):
            flushed.append((env_.get('encode_data->curr_symb_start'), env_.get('encode_data->curr_symb_len')))
            env_['encode_data->curr_symb_len'] = 0
            return 1
        ex = PE.PrintExec(tu, {}, {'_reduce_symb_flush': flush}, {})
        try:
            ex.run(f.body, env)
        except F.AnalysisBroken as exn:
            raise F.AnalysisBroken('_reduce_output_byte from a run of %d bytes: %s' % (old_len, exn))
        new_len = env.get('encode_data->curr_symb_len')
        want_len = 1 if old_len == maxlen else old_len + 1
        why = None
        if new_len != want_len:
            why = 'the run length becomes %s, expected %d' % (new_len, want_len)
        elif old_len == maxlen and (len(flushed) != 1 or flushed[0][1] != maxlen or (ranged and flushed[0][0] != S)):
            why = 'the flushed run is %s, expected the old run (start %d, length %d)' % (flushed, S, maxlen)
        elif ranged:
            st = env.get('encode_data->curr_symb_start')
            if not isinstance(st, int) or st + new_len - 1 != P:
                why = 'the run is [%s, +%s): its last byte is not buf[pos=%d]' % (st, new_len, P)
        else:
            if env.get('encode_data->curr_symb[%d]' % (new_len - 1)) != 77:
                why = 'curr_symb[%d] does not receive buf[pos]' % (new_len - 1)
        n += 1
        run.ob(rule, (old_len,), why is None, {'run length before': old_len, 'after': new_len, 'flushed': flushed, 'representation': 'range of the input' if ranged else 'copy'})
        if why:
            run.violation(rule, f, 'literal run after a byte (old length %d)' % old_len, 'after _reduce_output_byte (data, %d) from a run of %d bytes %s: '
                          'the encoder emits other bytes than its input and the decoder reproduces them (lengths and the check hash of the '
                          'input disagree: a complete unmodified stream is rejected, losslessness is lost)' % (P, old_len, why), line=f.line)
    return n


# ---------------------------------------------------------------------------------------------
# RF105: a back reference is computed from the dictionary as the lookup left it
# ---------------------------------------------------------------------------------------------

def rf105(run):
    rule = 'RF105'
    run.rule(rule, 'mir-reduce.h encoder, _reduce_encode_buf: the offset passed to _reduce_output_ref is computed from dictionary state '
                   '(data->curr_num, fields of a dictionary element) that is read after the lookup _reduce_dict_find_longest and before '
                   'the next _reduce_dict_add: the insertion advances curr_num and may recycle the very element the lookup returned, so '
                   'a read behind it yields offset 0 or an offset to another position and the decoder, which accepts it, restores '
                   'different bytes')
    tu = run.tu('mir')
    f = tu.func('_reduce_encode_buf')
    cfg = f.cfg
    run.functions_analysed.add(('mir', f.name))
    calls = [n for n in f.walk() if n['k'] == 'CallExpr' and n.get('callee') == '_reduce_output_ref']
    if not calls:
        raise F.AnalysisBroken('_reduce_encode_buf: no call of _reduce_output_ref')

    def is_state_read(x):
        if x['k'] != 'MemberExpr':
            return False
        s = F.src(x)
        return s.endswith('curr_num') or s.endswith('->num') or s.endswith('.num') or s.endswith('->pos') and 'table' in s \
            or (x.get('arrow') and x.get('n') in ('num', 'pos', 'next'))

    assigns = {}
    for n in f.walk():
        if n['k'] == 'BinaryOperator' and n['op'] == '=':
            l = F.strip(n['c'][0])
            if l['k'] == 'DeclRefExpr':
                assigns.setdefault(l['n'], []).append(n['c'][1])
        elif n['k'] == 'DeclStmt':
            for d in n.get('decls', []):
                if d.get('init') is not None:
                    assigns.setdefault(d['n'], []).append(d['init'])

    reads = []   # memory reads the offset depends on

    def leaves(e, depth, seen):
        for x in F.walk(e):
            if is_state_read(x):
                reads.append(x)
            elif x['k'] == 'DeclRefExpr' and x.get('n') in assigns and x['n'] not in seen and depth < 4:
                seen.add(x['n'])
                for r in assigns[x['n']]:
                    leaves(r, depth + 1, seen)
    for c in calls:
        args = F.kids(c)[1:]
        if len(args) < 2:
            raise F.AnalysisBroken('_reduce_output_ref call shape')
        leaves(args[1], 0, set())
    read_ids = {x['i'] for x in reads}

    # forward may-analysis: dirty = a _reduce_dict_add was executed since the last lookup
    def transfer(B, dirty, report):
        seen = set()
        for e in B.elems:
            # nested calls are listed as elements of their own before the full expression: visit every node once, in that order
            for x in reversed(list(cfg.local_walk(e))):
                if x['i'] in seen:
                    continue
                seen.add(x['i'])
                if x['k'] == 'CallExpr' and x.get('callee') == '_reduce_dict_find_longest':
                    dirty = False
                elif x['k'] == 'CallExpr' and x.get('callee') == '_reduce_dict_add':
                    dirty = True
                elif report is not None and x['i'] in read_ids:
                    report[x['i']] = report.get(x['i'], False) or dirty
        return dirty
    inn = {b: False for b in cfg.blocks}
    changed = True
    while changed:
        changed = False
        for b in cfg.rpo():
            out = transfer(cfg.blocks[b], inn[b], None)
            for s in cfg.live_succs(b):
                if out and not inn[s]:
                    inn[s] = True
                    changed = True
    rep = {}
    for b in cfg.blocks:
        transfer(cfg.blocks[b], inn[b], rep)
    n = 0
    for x in reads:
        if x['i'] not in rep:
            continue
        n += 1
        ok = not rep[x['i']]
        run.ob(rule, (x['l'], F.src(x)), ok, {'read': F.src(x), 'line': x['l']})
        if not ok:
            run.violation(rule, f, 'offset from `%s` read behind _reduce_dict_add' % F.src(x),
                          'the back-reference offset depends on `%s` (line %d), which is read after _reduce_dict_add ran for the current '
                          'position: the insertion has advanced curr_num and can have recycled the element the lookup returned, so the '
                          'reference points to other bytes than the ones matched' % (F.src(x), x['l']), line=x['l'])
    if n == 0:
        raise F.AnalysisBroken('_reduce_encode_buf: the offset of _reduce_output_ref depends on no dictionary read')
    return n


# ---------------------------------------------------------------------------------------------
# RF135: a buffer of the encoder is encoded once
# ---------------------------------------------------------------------------------------------

def rf135(run):
    rule = 'RF135'
    run.rule(rule, 'mir-reduce.h encoder: _reduce_encode_buf encodes (and hashes) data->buf[0 .. buf_bound).  In every function that calls it, '
                   'each path from the call to the exit of the function resets data->buf_bound to 0 or releases the encoder state; a '
                   'buffer left marked as full is encoded a second time by reduce_encode_finish when no further byte arrives (inputs whose '
                   'length is a multiple of the buffer size decode to one buffer too many, with a matching check hash)')
    tu = run.tu('mir')
    n = 0
    for g in tu.func_list:
        if g.body is None or g.name == '_reduce_encode_buf' or not g.file.endswith('mir-reduce.h'):
            continue
        calls = [x for x in g.walk() if x['k'] == 'CallExpr' and x.get('callee') == '_reduce_encode_buf']
        if not calls:
            continue
        run.functions_analysed.add(('mir', g.name))
        cfg = g.cfg
        good = set()
        for B in cfg.blocks.values():
            for e in B.elems:
                for y in F.walk(e):
                    if y['k'] == 'BinaryOperator' and y['op'] == '=' and F.src(F.strip(y['c'][0])).replace(' ', '').endswith('->buf_bound') \
                            and F.const_value(F.strip(y['c'][1])) == 0:
                        good.add(B.id)
                    if y['k'] == 'CallExpr' and (y.get('callee') in ('free', 'MIR_free') or 'free' in (F.callee_member(y) or '')) and 'data' in F.src(y):
                        good.add(B.id)
        for c in calls:
            b = cfg.block_of(c)
            # the reset may sit in the same block behind the call
            B = cfg.blocks[b]
            after = False
            same = False
            for e in B.elems:
                if any(y is c for y in F.walk(e)):
                    after = True
                    continue
                if after and any((y['k'] == 'BinaryOperator' and y['op'] == '=' and F.src(F.strip(y['c'][0])).replace(' ', '').endswith('->buf_bound')
                                  and F.const_value(F.strip(y['c'][1])) == 0)
                                 or (y['k'] == 'CallExpr' and (y.get('callee') in ('free', 'MIR_free') or 'free' in (F.callee_member(y) or ''))
                                     and 'data' in F.src(y)) for y in F.walk(e)):
                    same = True
            ok = same
            if not ok:
                seen = set()
                st = list(cfg.live_succs(b))
                reach_exit = False
                while st:
                    x = st.pop()
                    if x in seen or x in good:
                        continue
                    seen.add(x)
                    if x == cfg.exit:
                        reach_exit = True
                        break
                    st.extend(cfg.live_succs(x))
                ok = not reach_exit
            n += 1
            run.ob(rule, (g.name, c['l']), ok, {'function': g.name, 'call at': c['l'], 'buffer emptied or state released on every path': ok})
            if not ok:
                run.violation(rule, g, 'encoded buffer left pending', '%s calls _reduce_encode_buf (line %d) and can return with data->buf_bound still '
                              'covering the bytes just encoded: when the input ends there, reduce_encode_finish encodes the same buffer again and the '
                              'stream decodes to extra bytes (MIR_read: garbage at the end of file)' % (g.name, c['l']), line=c['l'])
    if n < 2:
        raise F.AnalysisBroken('RF135: only %d calls of _reduce_encode_buf outside the function itself' % n)
    return n


# ---------------------------------------------------------------------------------------------
# RF146: a failure recorded by the decoder is never overwritten
# ---------------------------------------------------------------------------------------------

def rf146(run):
    rule = 'RF146'
    run.rule(rule, 'mir-reduce.h decoder: reduce_decode_start stores the verdict of the "MIR" prefix test in a field; that verdict must reach '
                   'reduce_decode_finish.  Every other assignment to the same field in the decoder stores the failure value, or is guarded '
                   'by a test of the field; and reduce_decode_finish reads it.  (The check hash covers the decoded data only, so a stream '
                   'damaged in its first three bytes is reported by this flag alone.)')
    tu = run.tu('mir')
    st = tu.func('reduce_decode_start')
    fin = tu.func('reduce_decode_finish')
    run.functions_analysed.update({('mir', st.name), ('mir', fin.name)})
    asg = [x for x in st.walk() if x['k'] == 'BinaryOperator' and x['op'] == '=' and any(y['k'] == 'CallExpr' and y.get('callee') == 'memcmp' for y in F.walk(x['c'][1]))]
    if not asg:
        raise F.AnalysisBroken('reduce_decode_start: the prefix test was not found')
    lhs = F.strip(asg[0]['c'][0])
    if lhs['k'] != 'MemberExpr':
        raise F.AnalysisBroken('reduce_decode_start: the prefix verdict is not stored in a field')
    field = lhs['n']
    rhs = F.strip(asg[0]['c'][1])
    fail_vals = {0}
    fail_src = None
    if rhs['k'] == 'ConditionalOperator':
        fv = F.const_value(F.strip(rhs['c'][2]))
        if fv is None:
            raise F.AnalysisBroken('reduce_decode_start: failure value of the prefix verdict not constant')
        fail_vals = {fv}
        fail_src = F.src(F.strip(rhs['c'][2])).replace(' ', '')
    from rf_proto import dominating_conditions
    n = 0
    for g in tu.func_list:
        if g.body is None or not g.file.endswith('mir-reduce.h') or not g.name.startswith(('reduce_decode', '_reduce_decode')):
            continue
        for x in g.walk():
            if x['k'] == 'BinaryOperator' and x['op'] == '=' and x is not asg[0]:
                l = F.strip(x['c'][0])
                if l['k'] == 'MemberExpr' and l['n'] == field:
                    v = F.const_value(F.strip(x['c'][1]))
                    ok = v in fail_vals
                    if not ok:
                        conds = dominating_conditions(g.cfg, g.cfg.block_of(x), selective=True)
                        for c, t in conds:
                            cc = c.replace(' ', '').strip('()')
                            if fail_src is not None:
                                # `field != FAIL` taken, or `field == FAIL` not taken
                                if cc.endswith('%s!=%s' % (field, fail_src)) and t or cc.endswith('%s==%s' % (field, fail_src)) and not t:
                                    ok = True
                            else:
                                if cc.endswith(field) and not cc.startswith('!') and t or (cc.startswith('!') and cc.endswith(field) and not t):
                                    ok = True
                    n += 1
                    run.functions_analysed.add(('mir', g.name))
                    run.ob(rule, (g.name, x['l']), ok, {'site': '%s:%d %s' % (g.relfile(), x['l'], g.name), 'assignment': F.src(x)[:60], 'failure value': sorted(fail_vals)})
                    if not ok:
                        run.violation(rule, g, 'failure verdict overwritten', '`%s` in %s overwrites the field that holds the verdict of the prefix test '
                                      'with a non-failure value without looking at it: a stream whose first bytes are damaged is decoded to the '
                                      'end and accepted (the check hash does not cover the prefix)' % (F.src(x)[:60], g.name), line=x['l'])
    reads = any(y['k'] == 'MemberExpr' and y['n'] == field for y in fin.walk())
    n += 1
    run.ob(rule, ('finish',), reads, {'reduce_decode_finish reads the field': reads, 'field': field})
    if not reads:
        run.violation(rule, fin, 'prefix verdict not consulted', 'reduce_decode_finish does not read `%s`, the field in which reduce_decode_start '
                      'stores the verdict of the prefix test' % field, line=fin.line)
    return n


# ---------------------------------------------------------------------------------------------
# RF160: the check hash is compared in all of its 64 bits
# ---------------------------------------------------------------------------------------------

def rf160(run):
    rule = 'RF160'
    run.rule(rule, 'mir-reduce.h: a value derived from the check hash (result of _reduce_str2hash / mir_hash_strict, the check_hash field, a '
                   'local or parameter assigned or bound to one of these inside the header) is 64 bits wide wherever it is combined or '
                   'compared: no conversion — implicit, as in `return a ^ b;` from a function of type int, or explicit — narrows it to a '
                   'smaller integer type.  Otherwise an alteration of the bytes of the stored hash that the narrow type drops is accepted')
    tu = run.tu('mir')
    funcs = [g for g in tu.func_list if g.body is not None and g.file.endswith('mir-reduce.h')]
    run.control(rule, 'functions of mir-reduce.h found', len(funcs) >= 10)
    SRC_CALLS = {'_reduce_str2hash', 'mir_hash_strict', 'mir_hash', 'mir_hash_finish', 'mir_hash_step'}
    tainted = {}   # function name -> set of local / parameter names

    def is_tainted(n, names):
        for y in F.walk(n):
            if y['k'] == 'CallExpr' and y.get('callee') in SRC_CALLS:
                return True
            if y['k'] == 'MemberExpr' and y['n'] == 'check_hash':
                return True
            if y['k'] == 'DeclRefExpr' and y.get('n') in names and y.get('dk') in ('local', 'param'):
                return True
        return False
    byname = {g.name: g for g in funcs}
    for _ in range(4):
        for g in funcs:
            names = tainted.setdefault(g.name, set())
            for x in g.walk():
                if x['k'] == 'BinaryOperator' and x['op'] in ('=', '^=', '|=', '+=') and F.strip(x['c'][0])['k'] == 'DeclRefExpr' and is_tainted(x['c'][1], names):
                    names.add(F.strip(x['c'][0])['n'])
                if x['k'] == 'DeclStmt':
                    for d in x.get('decls', []):
                        if d.get('init') is not None and is_tainted(d['init'], names):
                            names.add(d['n'])
                if x['k'] == 'CallExpr' and x.get('callee') in byname:
                    callee = byname[x['callee']]
                    for k, a in enumerate(x['c'][1:]):
                        if k < len(callee.params) and is_tainted(a, names):
                            tainted.setdefault(callee.name, set()).add(callee.params[k]['n'] if isinstance(callee.params[k], dict) else callee.params[k])
    n = src = 0
    for g in funcs:
        names = tainted.get(g.name, set())
        for x in g.walk():
            if x['k'] in F.CASTS and x.get('c'):
                t = tu.type(x)
                o = tu.type(x['c'][0])
                if t is None or o is None or getattr(t, 'kind', None) != 'int' or getattr(o, 'kind', None) != 'int':
                    continue
                if not is_tainted(x['c'][0], names):
                    continue
                src += 1
                inner = F.strip(x['c'][0])
                # a deliberate extraction of some bytes (`(h >> 8 * i) & 255`) is not a comparison of the hash
                extraction = inner['k'] == 'BinaryOperator' and inner['op'] in ('&', '>>') and \
                    (inner['op'] == '>>' or any(F.const_value(c_) is not None and 0 <= F.const_value(c_) < (1 << (t.w or 64)) for c_ in inner['c']))
                if o.w == 64 and t.w is not None and t.w < 64 and not extraction:
                    n += 1
                    run.functions_analysed.add(('mir', g.name))
                    run.ob(rule, (g.name, x['l']), False, {'site': '%s:%d %s' % (g.relfile(), x['l'], g.name), 'expression': F.src(x['c'][0])[:70], 'to': t.s})
                    run.violation(rule, g, 'check hash narrowed', '%s converts `%s` (64 bits, derived from the check hash) to %s (line %d): only the low %d '
                                  'bits of the hash take part in the comparison, an alteration of the other bytes of the stored hash is '
                                  'accepted' % (g.name, F.src(x['c'][0])[:60], t.s, x['l'], t.w), line=x['l'])
    for g in funcs:
        run.functions_analysed.add(('mir', g.name))
    run.control(rule, 'hash-derived values found', sum(len(v) for v in tainted.values()) >= 1 or src >= 1)
    run.ob(rule, ('header',), n == 0, {'functions': len(funcs), 'hash-derived variables': sorted('%s.%s' % (k, v_) for k, v in tainted.items() for v_ in v)[:20],
                                       'conversions of hash-derived values inspected': src, 'narrowing': n})
    return 1


# ---------------------------------------------------------------------------------------------
# RF173: the decoder can follow every reference the encoder can write
# ---------------------------------------------------------------------------------------------

def rf173(run):
    import re
    rule = 'RF173'
    run.rule(rule, 'mir-reduce.h: the encoder refers to an earlier symbol of the current buffer by its distance in symbols; its dictionary '
                   'recycles only the tail of one hash chain, so an element of another chain lives as long as the buffer and the distance can '
                   'be anything up to the number of symbols written so far.  The decoder therefore (a) keeps a position for every symbol of a '
                   'buffer — its table has at least as many entries as the buffer has bytes — and indexes it without wrapping, and (b) '
                   'rejects a reference number only when it is 0 or larger than the number of symbols decoded so far (frozen pair of tests); '
                   'any further restriction reports genuine encoder output as damaged')
    tu = run.tu('mir')
    recs = tu.records

    def arr_len(rec, fld):
        for f_ in recs.get(rec, {}).get('fields', []):
            if f_['n'] == fld:
                m = re.search(r'\[(\d+)\]', tu.type(f_['t']).s)
                return int(m.group(1)) if m else None
        return None
    nbuf = arr_len('reduce_data', 'buf')
    ntab = arr_len('_reduce_decode_data', 'ind2pos')
    if nbuf is None or ntab is None:
        raise F.AnalysisBroken('mir-reduce.h: the buffer / position table arrays were not found')
    ok = ntab >= nbuf
    run.ob(rule, ('table size',), ok, {'bytes per buffer': nbuf, 'entries of ind2pos': ntab})
    g = tu.func('reduce_decode_get')
    run.functions_analysed.add(('mir', g.name))
    if not ok:
        run.violation(rule, g, 'position table smaller than a buffer', 'the decoder remembers the positions of %d symbols but a buffer can hold %d '
                      '(one-byte symbols of incompressible data): a genuine back reference to a symbol further back is rejected or resolved '
                      'to the position of another symbol' % (ntab, nbuf), line=g.line)
    # (b) the rejection test
    tests = [x for x in g.walk() if x['k'] == 'IfStmt' and re.search(r'\bref_ind\b', F.src(x['c'][0])) and
             any(y['k'] == 'BreakStmt' for y in F.walk(x['c'][1]))]
    if len(tests) != 1:
        raise F.AnalysisBroken('reduce_decode_get: %d tests of the reference number found, expected one' % len(tests))

    def disj(e):
        e = F.strip(e)
        if e['k'] == 'BinaryOperator' and e['op'] == '||':
            return disj(e['c'][0]) + disj(e['c'][1])
        return [F.src(e).replace(' ', '').strip('()')]
    parts = set(disj(tests[0]['c'][0]))
    allowed = {'ref_ind==0', 'curr_ind<ref_ind', 'ref_ind>curr_ind', '!ref_ind', '0==ref_ind'}
    extra = sorted(parts - allowed)
    have = ({'ref_ind==0', '!ref_ind', '0==ref_ind'} & parts) and ({'curr_ind<ref_ind', 'ref_ind>curr_ind'} & parts)
    ok2 = not extra and bool(have)
    run.ob(rule, ('rejection test',), ok2, {'site': '%s:%d' % (g.relfile(), tests[0]['l']), 'rejects when': sorted(parts)})
    if not ok2:
        run.violation(rule, g, 'reference number rejected', 'reduce_decode_get rejects a reference when `%s`: %s' %
                      (' || '.join(sorted(parts)), ('the additional condition `%s` refuses distances the encoder does write (an old element of an '
                       'untouched hash chain stays referable for the whole buffer)' % extra[0]) if extra else 'the tests for 0 / for a number '
                       'beyond the symbols decoded so far are missing'), line=tests[0]['l'])
    # (a) continued: the table is indexed by the symbol number itself
    wraps = [x for x in g.walk() if x['k'] == 'ArraySubscriptExpr' and 'ind2pos' in F.src(x['c'][0]) and
             any(y['k'] == 'BinaryOperator' and y['op'] in ('%', '&') for y in F.walk(x['c'][1]))]
    run.ob(rule, ('indexing',), not wraps, {'subscripts of ind2pos that wrap': len(wraps)})
    if wraps:
        run.violation(rule, g, 'position table used as a ring', 'reduce_decode_get indexes the position table with `%s`: positions of symbols further '
                      'back than the ring are overwritten while the encoder can still refer to them' % F.src(wraps[0]['c'][1])[:50], line=wraps[0]['l'])
    return 3


# ---------------------------------------------------------------------------------------------
# RF183: bytes staged by the encoder reach the writer before anything written behind them
# ---------------------------------------------------------------------------------------------

def rf183(run):
    rule = 'RF183'
    run.rule(rule, 'mir-reduce.h encoder, typestate over the call tree of the three API functions.  A *staging buffer* is a byte array of the '
                   'encoder state that some function hands to the writer callback (its flusher) and others fill by element stores / memcpy '
                   '(today: `curr_symb`, the pending literal run).  State per buffer: empty / maybe non-empty; an append makes it non-empty, '
                   'the flusher or a reset of its length field empties it.  Every other call of the writer callback (a *direct* write — tag, '
                   'number, hash, or a long run passed through) happens with every staging buffer empty, except inside that buffer\'s own '
                   'flusher (header of the run); and reduce_encode_finish returns with all buffers empty (the states between API calls are '
                   'computed as a fixpoint over start · put*).  Otherwise bytes written later overtake the staged ones and the stream '
                   'does not decode')
    tu = run.tu('mir')
    funcs = {g.name: g for g in tu.func_list if g.body is not None and g.file.endswith('mir-reduce.h')}
    # staging buffers: uint8_t arrays of the encoder state
    bufs = []
    for f_ in tu.records.get('_reduce_encode_data', {}).get('fields', []):
        ts = tu.type(f_['t']).s
        if ts.startswith('uint8_t[') or ts.startswith('unsigned char['):
            bufs.append(f_['n'])
    if not bufs:
        raise F.AnalysisBroken('mir-reduce.h: no byte array in the encoder state')

    def is_writer_call(x):
        if x['k'] != 'CallExpr':
            return False
        c = x.get('callee')
        if c == 'writer':
            return True
        if c is None:
            return 'writer' in F.src(F.strip(x['c'][0]))
        return False

    def mentions(node, b):
        return any(y['k'] == 'MemberExpr' and y['n'] == b for y in F.walk(node))
    flushers = {b: set() for b in bufs}
    lenfields = {b: set() for b in bufs}
    for g in funcs.values():
        for x in g.walk():
            if is_writer_call(x):
                a0 = F.call_args(x)[0]
                for b in bufs:
                    if mentions(a0, b):
                        flushers[b].add(g.name)
            if x['k'] == 'ArraySubscriptExpr':
                for b in bufs:
                    if mentions(x['c'][0], b):
                        for y in F.walk(x['c'][1]):
                            if y['k'] == 'MemberExpr':
                                lenfields[b].add(y['n'])
    bufs = [b for b in bufs if flushers[b]]
    run.control(rule, 'a staging buffer with a flusher found (curr_symb)', bool(bufs))
    viol = []
    memo = {}

    def transfer(g, state_in, flushing):
        """state: dict buffer -> frozenset of {'E','N'}; returns the state at the exits"""
        key = (g.name, tuple(sorted((b, tuple(sorted(s))) for b, s in state_in.items())), tuple(sorted(flushing)))
        if key in memo:
            return memo[key]
        memo[key] = state_in       # recursion guard (the call graph has no cycles)
        cfg = g.cfg
        fl = set(flushing) | {b for b in bufs if g.name in flushers[b]}
        inn = {cfg.entry: {b: set(s) for b, s in state_in.items()}}
        work = [cfg.entry]
        out_exit = {b: set() for b in bufs}
        seen_out = {}
        while work:
            bid = work.pop()
            st = {b: set(s) for b, s in inn[bid].items()}
            done = set()
            for el in cfg.blocks[bid].elems:
                # inner nodes first (arguments are evaluated before the call)
                nodes = list(F.walk(el))
                for x in reversed(nodes):
                    if x['i'] in done:
                        continue
                    if x['k'] == 'CallExpr':
                        done.add(x['i'])
                        if is_writer_call(x):
                            a0 = F.call_args(x)[0]
                            hit = [b for b in bufs if mentions(a0, b)]
                            for b in bufs:
                                if b in hit:
                                    continue
                                if 'N' in st[b] and b not in fl:
                                    viol.append((g, x['l'], b))
                            continue
                        c = x.get('callee')
                        if c in funcs and c != g.name:
                            emptied = [b for b in bufs if c in flushers[b]]
                            res = transfer(funcs[c], {b: frozenset(s) for b, s in st.items()}, fl)
                            for b in bufs:
                                st[b] = {'E'} if b in emptied else set(res[b])
                        elif c in ('memcpy', 'memmove'):
                            for b in bufs:
                                if mentions(F.call_args(x)[0], b):
                                    st[b] = {'N'}
                    elif x['k'] in ('BinaryOperator', 'CompoundAssignOperator') and x['op'] in ('=', '+=', '|='):
                        done.add(x['i'])
                        l = F.strip(x['c'][0])
                        for b in bufs:
                            if l['k'] == 'ArraySubscriptExpr' and mentions(l['c'][0], b):
                                st[b] = {'N'}
                            if x['op'] == '=' and l['k'] == 'MemberExpr' and l['n'] in lenfields[b]:
                                r = F.strip(x['c'][1])
                                rv = F.const_value(r)
                                if rv == 0 or (r['k'] == 'BinaryOperator' and r['op'] == '=' and F.const_value(F.strip(r['c'][1])) == 0):
                                    st[b] = {'E'}
            succs = cfg.live_succs(bid)
            if not succs or bid == cfg.exit:
                for b in bufs:
                    out_exit[b] |= st[b]
            for s_ in succs:
                if s_ is None:
                    continue
                old = inn.get(s_)
                if old is None:
                    inn[s_] = {b: set(v) for b, v in st.items()}
                    work.append(s_)
                else:
                    ch = False
                    for b in bufs:
                        if not st[b] <= old[b]:
                            old[b] |= st[b]
                            ch = True
                    if ch:
                        work.append(s_)
        if cfg.exit in inn:
            for b in bufs:
                out_exit[b] |= inn[cfg.exit][b]
        res = {b: frozenset(s or {'E'}) for b, s in out_exit.items()}
        memo[key] = res
        return res
    n = 0
    for api in ('reduce_encode_start', 'reduce_encode_put', 'reduce_encode_finish'):
        if api not in funcs:
            raise F.AnalysisBroken('%s not found' % api)
        run.functions_analysed.add(('mir', api))
    # states between API calls: after start, and after any number of puts
    S = dict(transfer(funcs['reduce_encode_start'], {b: frozenset({'E'}) for b in bufs}, frozenset()))
    for _ in range(4):
        r = transfer(funcs['reduce_encode_put'], S, frozenset())
        S2 = {b: frozenset(S[b] | r[b]) for b in bufs}
        if S2 == S:
            break
        S = S2
    res = transfer(funcs['reduce_encode_finish'], S, frozenset())
    for b in bufs:
        ok = res[b] == frozenset({'E'})
        n += 1
        run.ob(rule, ('finish', b), ok, {'buffer': b, 'state between API calls': sorted(S[b]), 'state when reduce_encode_finish returns': sorted(res[b])})
        if not ok:
            run.violation(rule, funcs['reduce_encode_finish'], 'staged bytes left at the end', 'reduce_encode_finish can return with bytes still staged in '
                          '`%s`: the end of the stream is never written' % b, line=funcs['reduce_encode_finish'].line)
    seen = set()
    for g, l, b in viol:
        if (g.name, l, b) in seen:
            continue
        seen.add((g.name, l, b))
        run.functions_analysed.add(('mir', g.name))
        run.ob(rule, (g.name, l, b), False, {'site': '%s:%d %s' % (g.relfile(), l, g.name), 'buffer that may hold staged bytes': b})
        run.violation(rule, g, 'direct write overtakes staged bytes', '%s calls the writer callback directly (line %d) on a path where `%s` may still '
                      'hold staged bytes (reached from the API functions through the call tree): the bytes written here come out in front of '
                      'the staged ones — for a literal run in front of its own tag and length — and the stream no longer decodes' % (g.name, l, b), line=l)
    run.ob(rule, ('summary',), not viol, {'staging buffers': bufs, 'flushers': {b: sorted(flushers[b]) for b in bufs}, 'direct writes with staged bytes': len(seen)})
    return n
