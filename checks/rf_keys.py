"""RF12 hash/equality agreement of hash tables and cache-key completeness."""
from lib import facts as F


def fields_read(tu, f, depth=1, seen=None):
    """names of struct fields read in f (and, one level down, in the functions it calls with one of its parameters)"""
    out = set()
    for n in f.walk():
        if n['k'] == 'MemberExpr':
            out.add(n['n'])
    if depth > 0:
        for n in f.walk():
            if n['k'] == 'CallExpr' and n.get('callee') in tu.funcs and not n['callee'].startswith(('mir_hash', 'VARR_', 'HTAB_', 'DLIST_')):
                g = tu.funcs[n['callee']]
                if g is not f:
                    out |= fields_read(tu, g, depth - 1)
    return out


def table_pairs(tu):
    """(table field, hash function, eq function, creation site) for every HTAB creation in the unit"""
    res = []
    for f in tu.func_list:
        for n in f.walk():
            if n['k'] == 'CallExpr' and (n.get('callee') or '').startswith('HTAB_') and 'create' in n['callee']:
                fns = []
                for a in F.call_args(n):
                    a = F.strip(a)
                    if a['k'] == 'DeclRefExpr' and a.get('dk') == 'func':
                        fns.append(a['n'])
                tab = F.src(F.call_args(n)[0])
                if len(fns) >= 2:
                    res.append((tab, fns[0], fns[1], f, n))
    return res


IGNORED = {'u', 'ops', 'varr', 'els_num'}  # union/array plumbing, not key fields


def rf12(run, units=('mir', 'gen', 'c2mir')):
    rule = 'RF12'
    run.rule(rule, 'for every hash table: each field the hash function mixes in is also compared by the equality function (otherwise equal '
                   'keys can hash differently and look-ups miss); for the FFI trampoline cache additionally every input of the trampoline '
                   'generator is part of the key')
    n = 0
    for u in units:
        tu = run.tu(u)
        for tab, hfn, efn, f, site in table_pairs(tu):
            if hfn not in tu.funcs or efn not in tu.funcs:
                continue
            n += 1
            H = fields_read(tu, tu.funcs[hfn]) - IGNORED
            E = fields_read(tu, tu.funcs[efn]) - IGNORED
            extra = H - E
            exc = run.exception(rule, hfn)
            ok = not extra or bool(exc)
            run.ob(rule, (u, hfn, efn), ok, {'table': tab[:50], 'hash': hfn, 'eq': efn, 'hashed fields': sorted(H), 'compared fields': sorted(E),
                                             'hashed but not compared': sorted(extra)})
            if not ok:
                run.violation(rule, tu.funcs[hfn], 'hash %s vs eq %s' % (hfn, efn),
                              '%s mixes in field(s) %s that %s does not compare: two keys that compare equal can get different hashes, so '
                              'a stored element is not found again' % (hfn, ', '.join(sorted(extra)), efn), line=tu.funcs[hfn].line)
    # FFI trampoline cache: key covers the generator's inputs
    tu = run.tu('mir')
    gf = tu.func('get_ff_interface')
    eqf = tu.func('ff_interface_eq')
    E = fields_read(tu, eqf, 0)
    # fields filled from the parameters
    filled = {}
    for x in gf.walk():
        if x['k'] == 'BinaryOperator' and x['op'] == '=':
            l, r = F.strip(x['c'][0]), F.strip(x['c'][1])
            if l['k'] == 'MemberExpr' and r['k'] == 'DeclRefExpr' and r.get('dk') == 'param':
                filled[r['n']] = l['n']
    gen_calls = [x for x in gf.walk() if x['k'] == 'CallExpr' and x.get('callee') == '_MIR_get_ff_call']
    if len(gen_calls) != 1:
        raise F.AnalysisBroken('get_ff_interface: call of _MIR_get_ff_call not found')
    for a in F.call_args(gen_calls[0])[1:]:
        a = F.strip(a)
        if a['k'] == 'DeclRefExpr' and a.get('dk') == 'param':
            fld = filled.get(a['n'])
            ok = fld is not None and fld in E
            n += 1
            run.ob(rule, ('ff-key', a['n']), ok, {'generator input': a['n'], 'key field': fld, 'compared in ff_interface_eq': ok})
            if not ok:
                run.violation(rule, gf, 'trampoline input %s' % a['n'], 'the trampoline generator receives %s but the cache key does not '
                              'include it: two different signatures would share one trampoline' % a['n'], line=gen_calls[0]['l'])
    # fields of an argument descriptor the generator reads must be compared
    ff = tu.func('_MIR_get_ff_call')
    desc_fields = {x['n'] for x in ff.walk() if x['k'] == 'MemberExpr' and x.get('rec') in ('_MIR_arg_desc_t', '_MIR_arg_desc')}
    for fld in sorted(desc_fields):
        ok = fld in E
        n += 1
        run.ob(rule, ('ff-desc', fld), ok, {'argument descriptor field read by the generator': fld, 'compared': ok})
        if not ok:
            run.violation(rule, eqf, 'descriptor field %s' % fld, '_MIR_get_ff_call reads arg_descs[i].%s but ff_interface_eq does not compare '
                          'it' % fld, line=eqf.line)
    return n


# ---------------------------------------------------------------------------------------------
# RF12b: the trampoline cache key separates every pair of types the trampoline generator treats differently
# ---------------------------------------------------------------------------------------------

def _type_domain(tu):
    types = tu.enum('MIR_type_t')
    tv = dict(types)
    dom = [(n, v) for n, v in types if n not in ('MIR_T_UNDEF', 'MIR_T_BOUND', 'MIR_T_BLK')]
    dom += [('MIR_T_BLK+%d' % k, tv['MIR_T_BLK'] + k) for k in range(0, tv['MIR_T_RBLK'] - tv['MIR_T_BLK'])]
    seen, out = set(), []
    for n, v in dom:
        if v not in seen:
            seen.add(v)
            out.append((n, v))
    return out


def rf12b(run):
    from lib import enumflow as EF
    rule = 'RF12b'
    run.rule(rule, 'FFI trampoline cache: for every pair of MIR types that some test or call argument of the trampoline generator '
                   '(_MIR_get_ff_call) tells apart — separately for argument types and result types — the comparison in '
                   'ff_interface_eq tells them apart too (both evaluated over the finite type domain); otherwise two prototypes '
                   'would share a trampoline built for only one of them')
    tu = run.tu('mir')
    preds = EF.Predicates(tu)
    ff = tu.func('_MIR_get_ff_call')
    eqf = tu.func('ff_interface_eq')
    run.functions_analysed.update({('mir', ff.name), ('mir', eqf.name)})
    dom = _type_domain(tu)

    def mentions(n, key):
        return any(F.src(x) == key for x in F.walk(n) if x['k'] in ('DeclRefExpr', 'ArraySubscriptExpr', 'MemberExpr'))

    def probes(key):
        """maximal expressions of the generator that mention the type expression `key`: conditions and call arguments"""
        out = []
        for x in ff.walk():
            if x['k'] in ('IfStmt', 'ConditionalOperator', 'WhileStmt'):
                c = x['c'][0]
                if c is not None and mentions(c, key):
                    out.append(c)
            if x['k'] == 'CallExpr':
                for a in F.call_args(x):
                    if mentions(a, key) and F.strip(a)['k'] not in ('DeclRefExpr',):
                        out.append(a)
        return out

    def vector(key, v):
        return tuple(preds.eval(p, {key: v}, frozenset()) for p in probes(key))
    # how the generator names the argument type and the result type
    arg_key, res_key = 'type', None
    for x in ff.walk():
        if x['k'] == 'ArraySubscriptExpr' and F.src(F.strip(x['c'][0])) == 'res_types':
            res_key = F.src(x)
    if res_key is None or not probes(arg_key) or not probes(res_key):
        raise F.AnalysisBroken('_MIR_get_ff_call: type tests on `type` / `res_types[i]` not found')
    # comparisons of the key
    conds = []
    for x in eqf.walk():
        if x['k'] == 'IfStmt':
            c = x['c'][0]
            t = F.src(c)
            if 'i1->' in t and 'i2->' in t:
                conds.append(c)
    memcmp_res = any('memcmp' in F.src(c) and 'res_types' in F.src(c) for c in conds)

    def key_differs(kind, v1, v2):
        if kind == 'res' and memcmp_res:
            return v1 != v2
        any_known = False
        for c in conds:
            t = F.src(c)
            if kind == 'res' and 'res_types' not in t:
                continue
            if kind == 'arg' and '.type' not in t:
                continue
            env = {}
            for x in F.walk(c):
                if x['k'] in ('ArraySubscriptExpr', 'MemberExpr'):
                    sx = F.src(x)
                    if kind == 'res' and x['k'] == 'ArraySubscriptExpr' and 'res_types' in sx:
                        env[sx] = v1 if sx.startswith('i1->') else v2
                    if kind == 'arg' and x['k'] == 'MemberExpr' and x['n'] == 'type':
                        env[sx] = v1 if sx.startswith('i1->') else v2
            r = preds.eval(c, env, frozenset())
            if r is None:
                continue
            any_known = True
            if r:
                return True
        return False if any_known else None
    n = 0
    for kind, key in (('arg', arg_key), ('res', res_key)):
        vecs = {v: vector(key, v) for nme, v in dom}
        bad = None
        for i, (n1, v1) in enumerate(dom):
            for n2, v2 in dom[i + 1:]:
                if vecs[v1] == vecs[v2]:
                    continue
                d = key_differs(kind, v1, v2)
                if d is None:
                    raise F.AnalysisBroken('ff_interface_eq: the %s type comparison cannot be evaluated for (%s, %s)' % (kind, n1, n2))
                n += 1
                run.ob(rule, (kind, n1, n2), d, {'position': 'argument' if kind == 'arg' else 'result', 'types': '%s / %s' % (n1, n2),
                                                'generator treats them differently': True, 'key separates them': d})
                if not d and bad is None:
                    bad = (n1, n2)
        if bad:
            run.violation(rule, eqf, '%s types %s and %s' % ('argument' if kind == 'arg' else 'result', bad[0], bad[1]),
                          'ff_interface_eq treats %s types %s and %s as the same key although _MIR_get_ff_call generates different code for '
                          'them: the second prototype reuses a trampoline that moves the value the wrong way'
                          % ('argument' if kind == 'arg' else 'result', bad[0], bad[1]), line=eqf.line)
    return n


# ---------------------------------------------------------------------------------------------
# RF182: the trampoline cache compares the size wherever the trampoline generator reads it
# ---------------------------------------------------------------------------------------------

def rf182(run):
    from lib import enumflow as EF
    rule = 'RF182'
    run.rule(rule, 'interpreter FFI cache: _MIR_get_ff_call reads `arg_descs[i].size` in the branch taken for by-value blocks of every class '
                   '(how many registers are loaded, how many words are copied).  For every argument type that reaches that branch — the '
                   'branch conditions are evaluated over the type domain — the guard in front of the size comparison of ff_interface_eq, and '
                   'of the size step of ff_interface_hash, is true.  A key that ignores the size of blk1 / blk2 blocks lets an 8-byte and a '
                   '16-byte struct share one trampoline')
    tu = run.tu('mir')
    preds = EF.Predicates(tu)
    ff = tu.func('_MIR_get_ff_call')
    eqf = tu.func('ff_interface_eq')
    hf = tu.func('ff_interface_hash')
    run.functions_analysed.update({('mir', ff.name), ('mir', eqf.name), ('mir', hf.name)})
    dom = _type_domain(tu)
    # the if-chain on `type` whose last else reads .size
    chain = None
    for x in ff.walk():
        if x['k'] == 'IfStmt' and 'type' in F.src(x['c'][0]):
            p_ = ff.parent_of(x)
            if p_ is not None and p_['k'] == 'IfStmt' and p_['c'][2] is x:
                continue
            elems, n_ = [], x
            while n_ is not None and n_['k'] == 'IfStmt':
                elems.append((n_['c'][0], n_['c'][1]))
                n_ = n_['c'][2]
            elems.append((None, n_))

            def reads_size(b_):
                return b_ is not None and any(y['k'] == 'MemberExpr' and y['n'] == 'size' for y in F.walk(b_))
            ks = [k for k, (c_, b_) in enumerate(elems) if reads_size(b_)]
            if len(ks) == 1 and len(elems) >= 3:
                chain = (elems, ks[0])
                break
    if chain is None:
        raise F.AnalysisBroken('_MIR_get_ff_call: the branch that reads the block size was not found')
    elems, k = chain
    sized = []
    for nme, v in dom:
        vals = [preds.eval(c, {'type': v}, frozenset()) for c, b_ in elems[:k + 1] if c is not None]
        if any(r is None for r in vals):
            raise F.AnalysisBroken('_MIR_get_ff_call: branch conditions not evaluable for %s' % nme)
        earlier = vals[:k]
        own = vals[k] if elems[k][0] is not None else True
        if not any(earlier) and own:
            sized.append((nme, v))
    if len(sized) < 3:
        raise F.AnalysisBroken('_MIR_get_ff_call: only %d types reach the block branch' % len(sized))

    def guard_of(g, what):
        for x in g.walk():
            if x['k'] == 'IfStmt':
                c = F.strip(x['c'][0])
                body_reads = any(y['k'] == 'MemberExpr' and y['n'] == 'size' for y in F.walk(x['c'][1]))
                cond_reads = any(y['k'] == 'MemberExpr' and y['n'] == 'size' for y in F.walk(c))
                if not (body_reads or cond_reads):
                    continue
                # the part of the condition that looks at the type only
                parts = []

                def conj(e):
                    e = F.strip(e)
                    if e['k'] == 'BinaryOperator' and e['op'] == '&&':
                        conj(e['c'][0])
                        conj(e['c'][1])
                    else:
                        parts.append(e)
                conj(c)
                tparts = [p_ for p_ in parts if not any(y['k'] == 'MemberExpr' and y['n'] == 'size' for y in F.walk(p_))]
                return x, tparts
        raise F.AnalysisBroken('%s: the %s of the size was not found' % (g.name, what))
    n = 0
    for g, what in ((eqf, 'comparison'), (hf, 'hash step')):
        site, tparts = guard_of(g, what)
        for nme, v in sized:
            env = {}
            for p_ in tparts:
                for y in F.walk(p_):
                    if y['k'] == 'MemberExpr' and y['n'] == 'type':
                        env[F.src(y)] = v
            vals = [preds.eval(p_, env, frozenset()) for p_ in tparts]
            if any(r is None for r in vals):
                raise F.AnalysisBroken('%s: the guard of the size %s is not evaluable for %s' % (g.name, what, nme))
            ok = all(vals)
            n += 1
            run.ob(rule, (g.name, nme), ok, {'function': g.name, 'argument type': nme, 'size takes part in the key': ok})
            if not ok:
                run.violation(rule, g, 'size of %s arguments not in the key' % nme, '%s leaves the size of a %s argument out of the cache key, but '
                              '_MIR_get_ff_call generates different code for different sizes of such a block (one or two registers loaded, '
                              'words copied): two prototypes that differ only in the struct size share a trampoline, and the callee reached '
                              'second gets its arguments in the wrong registers' % (g.name, nme), line=site['l'])
    return n
