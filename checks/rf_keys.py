"""RF12 hash/equality agreement of hash tables and cache-key completeness."""
from lib import facts as F


def fields_read(tu, f, depth=1, seen=None):
    """names of struct fields read in f (and, one level down, in the functions it calls with one of its parameters)"""
    out = set()
    for n in f.walk():
        if n['k'] == 'MemberExpr':
            out.add(n['n'])
    if depth > 0:
        for n in f.walk():
            if n['k'] == 'CallExpr' and n.get('callee') in tu.funcs and not n['callee'].startswith(('mir_hash', 'VARR_', 'HTAB_', 'DLIST_')):
                g = tu.funcs[n['callee']]
                if g is not f:
                    out |= fields_read(tu, g, depth - 1)
    return out


def table_pairs(tu):
    """(table field, hash function, eq function, creation site) for every HTAB creation in the unit"""
    res = []
    for f in tu.func_list:
        for n in f.walk():
            if n['k'] == 'CallExpr' and (n.get('callee') or '').startswith('HTAB_') and 'create' in n['callee']:
                fns = []
                for a in F.call_args(n):
                    a = F.strip(a)
                    if a['k'] == 'DeclRefExpr' and a.get('dk') == 'func':
                        fns.append(a['n'])
                tab = F.src(F.call_args(n)[0])
                if len(fns) >= 2:
                    res.append((tab, fns[0], fns[1], f, n))
    return res


IGNORED = {'u', 'ops', 'varr', 'els_num'}  # union/array plumbing, not key fields


def rf12(run, units=('mir', 'gen', 'c2mir')):
    rule = 'RF12'
    run.rule(rule, 'for every hash table: each field the hash function mixes in is also compared by the equality function (otherwise equal '
                   'keys can hash differently and look-ups miss); for the FFI trampoline cache additionally every input of the trampoline '
                   'generator is part of the key')
    n = 0
    for u in units:
        tu = run.tu(u)
        for tab, hfn, efn, f, site in table_pairs(tu):
            if hfn not in tu.funcs or efn not in tu.funcs:
                continue
            n += 1
            H = fields_read(tu, tu.funcs[hfn]) - IGNORED
            E = fields_read(tu, tu.funcs[efn]) - IGNORED
            extra = H - E
            exc = run.exception(rule, hfn)
            ok = not extra or bool(exc)
            run.ob(rule, (u, hfn, efn), ok, {'table': tab[:50], 'hash': hfn, 'eq': efn, 'hashed fields': sorted(H), 'compared fields': sorted(E),
                                             'hashed but not compared': sorted(extra)})
            if not ok:
                run.violation(rule, tu.funcs[hfn], 'hash %s vs eq %s' % (hfn, efn),
                              '%s mixes in field(s) %s that %s does not compare: two keys that compare equal can get different hashes, so '
                              'a stored element is not found again' % (hfn, ', '.join(sorted(extra)), efn), line=tu.funcs[hfn].line)
    # FFI trampoline cache: key covers the generator's inputs
    tu = run.tu('mir')
    gf = tu.func('get_ff_interface')
    eqf = tu.func('ff_interface_eq')
    E = fields_read(tu, eqf, 0)
    # fields filled from the parameters
    filled = {}
    for x in gf.walk():
        if x['k'] == 'BinaryOperator' and x['op'] == '=':
            l, r = F.strip(x['c'][0]), F.strip(x['c'][1])
            if l['k'] == 'MemberExpr' and r['k'] == 'DeclRefExpr' and r.get('dk') == 'param':
                filled[r['n']] = l['n']
    gen_calls = [x for x in gf.walk() if x['k'] == 'CallExpr' and x.get('callee') == '_MIR_get_ff_call']
    if len(gen_calls) != 1:
        raise F.AnalysisBroken('get_ff_interface: call of _MIR_get_ff_call not found')
    for a in F.call_args(gen_calls[0])[1:]:
        a = F.strip(a)
        if a['k'] == 'DeclRefExpr' and a.get('dk') == 'param':
            fld = filled.get(a['n'])
            ok = fld is not None and fld in E
            n += 1
            run.ob(rule, ('ff-key', a['n']), ok, {'generator input': a['n'], 'key field': fld, 'compared in ff_interface_eq': ok})
            if not ok:
                run.violation(rule, gf, 'trampoline input %s' % a['n'], 'the trampoline generator receives %s but the cache key does not '
                              'include it: two different signatures would share one trampoline' % a['n'], line=gen_calls[0]['l'])
    # fields of an argument descriptor the generator reads must be compared
    ff = tu.func('_MIR_get_ff_call')
    desc_fields = {x['n'] for x in ff.walk() if x['k'] == 'MemberExpr' and x.get('rec') in ('_MIR_arg_desc_t', '_MIR_arg_desc')}
    for fld in sorted(desc_fields):
        ok = fld in E
        n += 1
        run.ob(rule, ('ff-desc', fld), ok, {'argument descriptor field read by the generator': fld, 'compared': ok})
        if not ok:
            run.violation(rule, eqf, 'descriptor field %s' % fld, '_MIR_get_ff_call reads arg_descs[i].%s but ff_interface_eq does not compare '
                          'it' % fld, line=eqf.line)
    return n
