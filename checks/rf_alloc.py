"""RF1 allocator confinement, RF3 realloc old-size contract."""
from lib import facts as F

RAW_ALLOC = {'malloc', 'calloc', 'realloc', 'reallocarray', 'strdup', 'strndup', 'aligned_alloc', 'posix_memalign',
             'valloc', 'memalign', 'pvalloc', 'asprintf', 'vasprintf', 'getline', 'getdelim', 'open_memstream'}
RAW_FREE = {'free', 'cfree'}
RAW_MAP = {'mmap', 'munmap', 'mprotect', 'mremap', 'VirtualAlloc', 'VirtualFree', 'VirtualProtect'}
RAW = RAW_ALLOC | RAW_FREE | RAW_MAP

MIR_ALLOCS = {'MIR_malloc', 'MIR_calloc', 'MIR_realloc'}


def default_callbacks(tu):
    """functions whose address initialises a static struct MIR_alloc / MIR_code_alloc: the only
    places allowed to touch the C library allocator"""
    cbs = {}
    for g in tu.globals:
        t = tu.type(g['t'])
        if t.rec in ('MIR_alloc', 'MIR_code_alloc') and g.get('init'):
            for n in F.walk(g['init']):
                if n['k'] == 'DeclRefExpr' and n.get('dk') == 'func':
                    cbs[n['n']] = g['name']
    return cbs


def alloc_wrappers(tu):
    """functions that return the result of an MIR_* allocation (one level): name -> family"""
    wr = {}
    for f in tu.func_list:
        rt = tu.type(f.ret)
        if rt.kind != 'ptr':
            continue
        allocated = set()
        for n in f.walk():
            if n['k'] == 'BinaryOperator' and n['op'] == '=':
                r = F.strip(n['c'][1])
                if r['k'] == 'CallExpr' and r.get('callee') in MIR_ALLOCS:
                    allocated.add(F.src(n['c'][0]))
            if n['k'] == 'DeclStmt':
                for d in n['decls']:
                    if d.get('init') is not None:
                        r = F.strip(d['init'])
                        if r['k'] == 'CallExpr' and r.get('callee') in MIR_ALLOCS:
                            allocated.add(d['n'])
        rets = [n for n in f.walk() if n['k'] == 'ReturnStmt' and F.kids(n)]
        if rets and allocated and all(F.src(F.kids(r)[0]) in allocated for r in rets):
            wr[f.name] = 'MIR'
    return wr


def lhs_pointee(tu, f, call):
    """record/type name the result of an allocation call is stored as (through casts)"""
    p = f.parent_of(call)
    while p is not None and p['k'] in F.CASTS:
        p = f.parent_of(p)
    t = None
    if p is None:
        return None
    if p['k'] in ('BinaryOperator',) and p['op'] == '=':
        t = tu.type(p['c'][0])
    elif p['k'] == 'DeclStmt':
        for d in p['decls']:
            if d.get('init') is not None and any(x is call for x in F.walk(d['init'])):
                t = tu.types[d['t']]
    if t is not None and t.kind == 'ptr':
        pt = tu.types[t.pointee]
        return pt.rec or pt.c
    return None


def arg_pointee(tu, arg):
    a = F.strip(arg)
    t = tu.type(a)
    if t is not None and t.kind == 'ptr':
        pt = tu.types[t.pointee]
        return pt.rec or pt.c
    return None


def rf1(run, units=('mir', 'gen', 'c2mir')):
    rule = 'RF1'
    run.rule(rule, 'no function of a library unit references the C-library allocator/mapper except the '
                   'default-allocator callbacks; a block obtained from MIR_malloc/MIR_calloc is never passed to raw free')
    for u in units:
        tu = run.tu(u)
        cbs = default_callbacks(tu)
        if u == 'mir' and len(cbs) < 7:
            run.analysis_broken(rule, 'default allocator callback table not found in mir unit (found %d)' % len(cbs))
        wrappers = alloc_wrappers(tu)
        # which record types are allocated through the MIR family in this unit
        mir_allocated = {}
        raw_allocated = {}
        for f in tu.func_list:
            for n in f.walk():
                if n['k'] == 'CallExpr':
                    c = n.get('callee')
                    if c in MIR_ALLOCS or c in wrappers:
                        pt = lhs_pointee(tu, f, n)
                        if pt and pt != 'void':
                            mir_allocated.setdefault(pt, []).append((f.name, n['l']))
                    elif c in RAW_ALLOC:
                        pt = lhs_pointee(tu, f, n)
                        if pt and pt != 'void':
                            raw_allocated.setdefault(pt, []).append((f.name, n['l']))
        for f in tu.func_list:
            run.functions_analysed.add((u, f.name))
            allowed = f.name in cbs
            nrefs = 0
            for n in f.walk():
                if n['k'] == 'DeclRefExpr' and n.get('dk') == 'func' and n['n'] in RAW:
                    nrefs += 1
                    name = n['n']
                    par = f.parent_of(n)
                    # find the call this reference is the callee of, if any
                    call = None
                    x = n
                    for a in f.ancestors(n):
                        if a['k'] in F.CASTS:
                            x = a
                            continue
                        if a['k'] == 'CallExpr' and a['c'][0] is x or (a['k'] == 'CallExpr' and F.strip(a['c'][0]) is n):
                            call = a
                        break
                    if allowed:
                        run.ob(rule, (u, f.name, name), True,
                               {'site': '%s:%d' % (f.relfile(), n['l']), 'function': f.name, 'callee': name,
                                'verdict': 'allowed: default allocator callback installed in ' + cbs[f.name]})
                        continue
                    detail = ''
                    if call is not None and name in RAW_FREE:
                        pt = arg_pointee(tu, F.call_args(call)[0]) if F.call_args(call) else None
                        if pt in mir_allocated:
                            fn, ln = mir_allocated[pt][0]
                            detail = ' — and the released %s block is obtained from the MIR allocator (%s, line %d): ' \
                                     'allocator mismatch' % (pt, fn, ln)
                    what = 'call of' if call is not None else 'address of'
                    run.ob(rule, (u, f.name, name), False)
                    run.violation(rule, f, '%s %s' % (name, F.src(F.call_args(call)[0]) if call is not None and F.call_args(call) else ''),
                                  '%s C-library %s() bypasses the context allocator%s' % (what, name, detail),
                                  line=n['l'], slots={'callee': name, 'unit': u})
            if nrefs == 0:
                # obligation per function: "references no raw allocator" — counted once per function
                run.ob(rule, (u, f.name), True)
        # the MIR_* wrappers must go through the allocator object (not be rewritten to call libc)
        for w, field in (('MIR_malloc', 'malloc'), ('MIR_calloc', 'calloc'), ('MIR_realloc', 'realloc'), ('MIR_free', 'free')):
            f = tu.funcs.get(w)
            if f is None:
                if u != 'mir2c':
                    run.analysis_broken(rule, 'wrapper %s not found in unit %s' % (w, u))
                continue
            calls = [n for n in f.walk() if n['k'] == 'CallExpr' and F.callee_member(n) == field]
            ok = len(calls) == 1 and all(F.src(F.call_args(c)[-1]).endswith('->user_data') for c in calls)
            run.ob(rule, (u, w, 'through-field'), ok, {'function': w, 'calls': [F.src(c) for c in calls]})
            if not ok:
                run.violation(rule, f, 'wrapper body', '%s does not forward to alloc->%s (…, alloc->user_data)' % (w, field),
                              line=f.line)
    return


def rf3(run, units=('mir', 'gen', 'c2mir')):
    """every MIR_realloc site passes as old size sizeof(elem) * <container>->size of the container whose
    storage is reallocated, and the size field is updated only after the call"""
    rule = 'RF3'
    run.rule(rule, 'MIR_realloc(alloc, p, old, new): old = elem_size * C->size for the container C with p = C->varr, '
                   'C->size not written between function entry and the call, and set to the new element count after it')
    seen = 0
    for u in units:
        tu = run.tu(u)
        for f in tu.func_list:
            for n in f.walk():
                if n['k'] == 'CallExpr' and (n.get('callee') == 'MIR_realloc' or F.callee_member(n) == 'realloc'):
                    if f.name == 'MIR_realloc' or f.name.startswith('default_'):
                        continue
                    seen += 1
                    args = F.call_args(n)
                    if n.get('callee') != 'MIR_realloc':
                        run.ob(rule, (u, f.name, n['l']), False)
                        run.violation(rule, f, 'direct alloc->realloc', 'reallocation bypasses MIR_realloc wrapper', line=n['l'])
                        continue
                    ptr, old, new = F.strip(args[1]), F.strip(args[2]), F.strip(args[3])
                    ps = F.src(ptr)
                    ok, why = check_realloc_site(tu, f, n, ptr, old, new)
                    run.ob(rule, (u, f.name, ps), ok, {'site': '%s:%d' % (f.relfile(), n['l']), 'function': f.name,
                                                      'ptr': ps, 'old': F.src(old), 'new': F.src(new), 'verdict': why})
                    if not ok:
                        run.violation(rule, f, 'MIR_realloc %s' % ps, why, line=n['l'], slots={'old': F.src(old), 'new': F.src(new)})
    return seen


def _mul_parts(e):
    e = F.strip(e)
    if e['k'] == 'BinaryOperator' and e['op'] == '*':
        return F.strip(e['c'][0]), F.strip(e['c'][1])
    return None


def check_realloc_site(tu, f, call, ptr, old, new):
    # ptr must be  C->varr  (or C.varr)
    if ptr['k'] != 'MemberExpr':
        return False, 'reallocated pointer %s is not a container storage field' % F.src(ptr)
    base = F.src(ptr['c'][0])
    mp = _mul_parts(old)
    if mp is None:
        return False, 'old size %s is not elem_size * count' % F.src(old)
    a, b = mp
    szs = [x for x in (a, b) if x['k'] == 'UnaryExprOrTypeTraitExpr']
    cnt = [x for x in (a, b) if x['k'] != 'UnaryExprOrTypeTraitExpr']
    if len(szs) != 1 or len(cnt) != 1:
        return False, 'old size %s is not sizeof(T) * count' % F.src(old)
    c = cnt[0]
    if not (c['k'] == 'MemberExpr' and c['n'] == 'size' and F.src(c['c'][0]) == base):
        return False, 'old element count %s is not %s->size (the allocated capacity of the same container)' % (F.src(c), base)
    # element size must be the pointee size of the storage
    pt = tu.type(ptr)
    if pt.kind == 'ptr':
        el = tu.types[pt.pointee]
        if el.w is not None and szs[0].get('v') is not None and el.w // 8 != szs[0]['v']:
            return False, 'old size uses sizeof = %s but the storage element is %d bytes' % (szs[0].get('v'), el.w // 8)
    mpn = _mul_parts(new)
    if mpn is None:
        return False, 'new size %s is not elem_size * count' % F.src(new)
    ncnt = [x for x in mpn if x['k'] != 'UnaryExprOrTypeTraitExpr']
    nsz = [x for x in mpn if x['k'] == 'UnaryExprOrTypeTraitExpr']
    if len(ncnt) != 1 or len(nsz) != 1 or nsz[0].get('v') != szs[0].get('v'):
        return False, 'new size %s does not use the same element size as the old size' % F.src(new)
    newcount = F.src(ncnt[0])
    # ordering: no write to base->size before the call on any path; a write base->size = newcount after it
    cfg = f.cfg
    cb = cfg.block_of(call)
    if cb is None:
        return False, 'call not found in CFG'
    size_writes = []
    for B in cfg.blocks.values():
        for e in cfg.block_nodes(B):
            if e['k'] == 'BinaryOperator' and e['op'] == '=' or e['k'] == 'CompoundAssignOperator' or \
                    (e['k'] == 'UnaryOperator' and e['op'] in ('++', '--')):
                l = F.strip(e['c'][0])
                if l['k'] == 'MemberExpr' and l['n'] == 'size' and F.src(l['c'][0]) == base:
                    size_writes.append((B.id, e))
    # writes that can reach the call (in a block from which cb is reachable, or earlier in cb)
    for bid, w in size_writes:
        if bid == cb:
            elems = cfg.blocks[bid].elems
            iw = [i for i, e in enumerate(elems) if any(x is w for x in F.walk(e))]
            ic = [i for i, e in enumerate(elems) if any(x is call for x in F.walk(e))]
            if ic and iw and min(iw) < min(ic):
                return False, '%s->size is written before MIR_realloc reads it as the old size' % base
        elif cb in cfg.reachable_from(bid) and bid not in cfg.reachable_from(cb):
            return False, '%s->size is written on a path leading to MIR_realloc (stale old size)' % base
    after = [w for bid, w in size_writes if bid == cb or bid in cfg.reachable_from(cb)]
    if not any(F.src(F.strip(w['c'][1])) == newcount for w in after if w['k'] == 'BinaryOperator'):
        return False, '%s->size is not set to the new element count %s after the reallocation' % (base, newcount)
    return True, 'old = sizeof(T) * %s->size, size updated to %s after the call' % (base, newcount)


# ---------------------------------------------------------------------------------------------
# RF2 container create/destroy pairing
# ---------------------------------------------------------------------------------------------
import re as _re
CRE = _re.compile(r'^(VARR_.*create|HTAB_.*_create|bitmap_create2?)$')
DES = _re.compile(r'^(VARR_.*destroy|HTAB_.*_destroy|bitmap_destroy)$')


def _target_of_create(f, n):
    c = n['callee']
    if c.startswith('bitmap'):
        p = f.parent_of(n)
        while p is not None and p['k'] in F.CASTS:
            p = f.parent_of(p)
        if p is not None and p['k'] == 'BinaryOperator' and p['op'] == '=':
            return F.strip(p['c'][0])
        if p is not None and p['k'] == 'DeclStmt':
            for d in p['decls']:
                if d.get('init') is not None and any(x is n for x in F.walk(d['init'])):
                    return {'k': 'DeclRefExpr', 'n': d['n'], 'dk': 'local', 'i': -1}
        return None
    a = F.strip(F.call_args(n)[0])
    if a['k'] == 'UnaryOperator' and a['op'] == '&':
        return F.strip(a['c'][0])
    return None


def _key(f, tgt):
    if tgt is None:
        return None
    if tgt['k'] == 'MemberExpr':
        return ('field', tgt.get('rec'), tgt['n'])
    if tgt['k'] == 'ArraySubscriptExpr':
        b = F.strip(tgt['c'][0])
        if b['k'] == 'MemberExpr':
            return ('field', b.get('rec'), b['n'] + '[]')
    if tgt['k'] == 'UnaryOperator' and tgt['op'] == '*':
        return ('deref', f.name, F.src(tgt))
    if tgt['k'] == 'DeclRefExpr':
        return ('local', f.name, tgt['n'])
    return ('other', f.name, F.src(tgt))


def _param_kept(g, pname):
    """does function g store its parameter somewhere that outlives the call (field, container, return)?"""
    for x in g.walk():
        if x['k'] == 'DeclRefExpr' and x['n'] == pname and x.get('dk') == 'param':
            p = g.parent_of(x)
            while p is not None and p['k'] in F.CASTS:
                p = g.parent_of(p)
            if p is None:
                continue
            if p['k'] == 'BinaryOperator' and p['op'] == '=' and any(y is x for y in F.walk(p['c'][1])) and \
                    F.strip(p['c'][0])['k'] in ('MemberExpr', 'ArraySubscriptExpr', 'UnaryOperator'):
                return True
            if p['k'] == 'ReturnStmt':
                return True
            if p['k'] == 'CallExpr' and (p.get('callee') or '').endswith('push') and F.call_args(p) and \
                    any(y is x for y in F.walk(F.call_args(p)[-1])):
                return True
    return False


def rf2(run, units=('mir', 'gen', 'c2mir')):
    rule = 'RF2'
    run.rule(rule, 'every container (VARR, HTAB, bitmap) created into a field of a context or object is destroyed through that field '
                   'somewhere in the unit; destroy calls in finish functions are guarded by nothing but a null test of the same field; '
                   'a container created into a local variable is destroyed in the same function on every path or handed on')
    for u in units:
        tu = run.tu(u)
        created, destroyed = {}, {}
        locals_ = []
        for f in tu.func_list:
            if f.name.startswith(('VARR_', 'HTAB_', 'bitmap_', 'DLIST_')):
                continue
            for n in f.walk():
                if n['k'] != 'CallExpr' or not n.get('callee'):
                    continue
                c = n['callee']
                if CRE.match(c):
                    tgt = _target_of_create(f, n)
                    k = _key(f, tgt)
                    if k is None:
                        continue
                    created.setdefault(k, []).append((f, n))
                    if k[0] == 'local':
                        locals_.append((f, n, k[2]))
                elif DES.match(c):
                    a = F.strip(F.call_args(n)[0])
                    tgt = F.strip(a['c'][0]) if a['k'] == 'UnaryOperator' and a['op'] == '&' else a
                    k = _key(f, tgt)
                    if k is not None:
                        destroyed.setdefault(k, []).append((f, n))
        # (A) field created => field destroyed
        for k, sites in sorted(created.items(), key=lambda kv: str(kv[0])):
            if k[0] != 'field':
                continue
            f, n = sites[0]
            ok = k in destroyed
            run.ob(rule, (u, 'pair') + k[1:], ok, {'unit': u, 'field': '%s.%s' % (k[1], k[2]), 'created in': sorted({s[0].name for s in sites}),
                                                   'destroyed in': sorted({s[0].name for s in destroyed.get(k, [])})})
            if not ok:
                run.violation(rule, f, 'container %s.%s' % (k[1], k[2]),
                              'the container %s.%s created in %s is never destroyed: its storage is not returned to the allocator at finish'
                              % (k[1], k[2], f.name), line=n['l'])
        # (B) destroy guarded only by null tests of the same container (or loops)
        for k, sites in destroyed.items():
            if k[0] != 'field':
                continue
            for f, n in sites:
                arg = F.strip(F.call_args(n)[0])
                tgt = F.src(F.strip(arg['c'][0])) if arg['k'] == 'UnaryOperator' and arg['op'] == '&' else F.src(arg)
                bad = None
                child = n
                for a in f.ancestors(n):
                    if a['k'] == 'IfStmt':
                        c = F.strip(a['c'][0])
                        in_then = a['c'][1] is not None and any(x is n for x in F.walk(a['c'][1]))
                        txt = F.src(c)
                        def conj(e):
                            e = F.strip(e)
                            if e['k'] == 'BinaryOperator' and e['op'] == '&&':
                                return conj(e['c'][0]) + conj(e['c'][1])
                            return [e]
                        parts = conj(c)
                        if in_then and any(pp['k'] == 'BinaryOperator' and pp['op'] == '!=' and F.const_value(F.strip(pp['c'][1])) == 0
                                           and F.src(F.strip(pp['c'][0])) == tgt for pp in parts):
                            continue
                        nullt = (c['k'] == 'BinaryOperator' and c['op'] == '!=' and F.const_value(F.strip(c['c'][1])) == 0) or c['k'] in ('DeclRefExpr', 'MemberExpr')
                        if in_then and nullt and (tgt in txt or txt.strip('()').split(' ')[0] in tgt):
                            continue
                        if in_then and nullt:
                            continue  # null test of an enclosing object (ctx == NULL early structure)
                        bad = txt
                        break
                run.ob(rule, (u, 'guard', f.name, n['l']), bad is None)
                if bad is not None:
                    run.violation(rule, f, 'conditional destroy of %s' % tgt,
                                  '%s destroys %s only under the condition [%s], which is not a null test of the container: on the other '
                                  'path the container leaks' % (f.name, tgt, bad[:80]), line=n['l'])
        # (C) local containers: destroyed on every path or handed on
        for f, n, name in locals_:
            uses = [x for x in f.walk() if x['k'] == 'DeclRefExpr' and x['n'] == name]
            handed = False
            for x in uses:
                p = f.parent_of(x)
                while p is not None and p['k'] in F.CASTS:
                    p = f.parent_of(p)
                if p is None:
                    continue
                if p['k'] == 'CallExpr' and not CRE.match(p.get('callee') or '') and not DES.match(p.get('callee') or '') \
                        and not (p.get('callee') or '').startswith(('VARR_', 'HTAB_', 'bitmap_')):
                    g = tu.funcs.get(p.get('callee') or '')
                    if g is None:
                        handed = True  # unknown callee may keep it
                    else:
                        idx = [i for i, a in enumerate(F.call_args(p)) if any(y is x for y in F.walk(a))]
                        if idx and idx[0] < len(g.params) and _param_kept(g, g.params[idx[0]]['n']):
                            handed = True
                if p['k'] == 'CallExpr' and (p.get('callee') or '').endswith('push') and F.call_args(p)[-1] is not None and \
                        any(y is x for y in F.walk(F.call_args(p)[-1])):
                    handed = True
                if p['k'] == 'BinaryOperator' and p['op'] == '=' and any(y is x for y in F.walk(p['c'][1])):
                    handed = True
                if p['k'] == 'ReturnStmt':
                    handed = True
            dk = ('local', f.name, name)
            if handed:
                run.ob(rule, (u, 'local', f.name, name), True, {'function': f.name, 'local container': name, 'verdict': 'handed on'})
                continue
            ds = destroyed.get(dk, [])
            cfg = f.cfg
            db = set()
            for g, d in ds:
                b = cfg.block_of(d)
                if b is not None:
                    db.add(b)
            cb = cfg.block_of(n)
            ok = bool(db) and cb is not None and (cb in db or not (cfg.exit in cfg.reachable_from(cb, avoid=lambda b: b in db and b != cb)))
            # error exits (noreturn) do not count as leaks
            if not ok and db and cb is not None:
                nor = {b for b in cfg.blocks if cfg.blocks[b].noreturn}
                ok = cfg.exit not in cfg.reachable_from(cb, avoid=lambda b: (b in db and b != cb) or b in nor)
            run.ob(rule, (u, 'local', f.name, name), ok, {'function': f.name, 'local container': name, 'destroyed on every path': ok})
            if not ok:
                run.violation(rule, f, 'local container %s' % name, 'the container %s created in %s is not destroyed on every path to the '
                              'function\'s exit and is not handed to anyone' % (name, f.name), line=n['l'])


# ---------------------------------------------------------------------------------------------
# RF27 ownership of elements stored in hash tables that have a free function
# ---------------------------------------------------------------------------------------------

def rf27(run, units=('mir', 'c2mir')):
    rule = 'RF27'
    run.rule(rule, 'a hash table created with a free function owns what that function releases: every element inserted into or '
                   'replacing an element of such a table carries freshly created storage for the released fields (a shared vector '
                   'would be destroyed with the replaced element and again at finish)')
    n = 0
    for u in units:
        tu = run.tu(u)
        for f in tu.func_list:
            for c in f.walk():
                if not (c['k'] == 'CallExpr' and (c.get('callee') or '').startswith('HTAB_') and 'create' in c['callee']):
                    continue
                fns = [F.strip(a)['n'] for a in F.call_args(c) if F.strip(a)['k'] == 'DeclRefExpr' and F.strip(a).get('dk') == 'func']
                if len(fns) < 3:
                    continue
                tab = F.src(F.call_args(c)[0]).lstrip('&')
                ff = tu.funcs.get(fns[2])
                if ff is None:
                    continue
                # what the free function releases: fields destroyed, or the element pointer itself
                owned = set()
                whole = False
                p0 = ff.params[0]['n']
                for x in ff.walk():
                    if x['k'] == 'CallExpr' and (DES.match(x.get('callee') or '') or x.get('callee') in ('MIR_free', 'free')):
                        a = F.strip(F.call_args(x)[-1] if x.get('callee') in ('MIR_free', 'free') else F.call_args(x)[0])
                        if a['k'] == 'UnaryOperator' and a['op'] == '&':
                            a = F.strip(a['c'][0])
                        if a['k'] == 'MemberExpr' and F.src(F.strip(a['c'][0])) == p0:
                            owned.add(a['n'])
                        elif a['k'] == 'DeclRefExpr' and a['n'] == p0:
                            whole = True
                # every insertion / replacement into this table
                for g in tu.func_list:
                    for d in g.walk():
                        if not (d['k'] == 'CallExpr' and (d.get('callee') or '').startswith('HTAB_') and d['callee'].endswith('_do')):
                            continue
                        args = F.call_args(d)
                        if len(args) < 4 or F.src(args[0]) != tab:
                            continue
                        act = F.strip(args[2])
                        if act['k'] != 'DeclRefExpr' or act['n'] not in ('HTAB_INSERT', 'HTAB_REPLACE'):
                            continue
                        el = F.strip(args[1])
                        elname = F.src(el)
                        for fld in sorted(owned):
                            n += 1
                            fresh = False
                            for x in g.walk():
                                if x['l'] > d['l']:
                                    continue
                                if x['k'] == 'CallExpr' and CRE.match(x.get('callee') or ''):
                                    t = _target_of_create(g, x)
                                    if t is not None and F.src(t) == '%s.%s' % (elname, fld):
                                        fresh = True
                                    elif t is not None and t['k'] == 'DeclRefExpr':
                                        # created into a local that is then assigned to the field
                                        for y in g.walk():
                                            if y['k'] == 'BinaryOperator' and y['op'] == '=' and F.src(F.strip(y['c'][0])) == '%s.%s' % (elname, fld) \
                                                    and F.src(F.strip(y['c'][1])) == t['n'] and y['l'] <= d['l']:
                                                fresh = True
                            run.ob(rule, (u, g.name, d['l'], fld), fresh, {'table': tab[-40:], 'free function': ff.name, 'site': '%s:%d %s' % (g.relfile(), d['l'], g.name),
                                                                          'action': act['n'], 'owned field': fld, 'freshly created here': fresh})
                            if not fresh:
                                run.violation(rule, g, '%s of %s.%s' % (act['n'], elname, fld),
                                              '%s stores an element into %s whose field %s is not freshly created in this function; %s '
                                              'destroys that field of the element it replaces and of every element at finish, so shared '
                                              'storage is used after free and freed twice' % (g.name, tab[-30:], fld, ff.name), line=d['l'])
                        if whole:
                            n += 1
                            fresh = False
                            if el['k'] == 'DeclRefExpr':
                                for x in g.walk():
                                    if x['k'] == 'BinaryOperator' and x['op'] == '=' and F.src(F.strip(x['c'][0])) == elname:
                                        r = F.strip(x['c'][1])
                                        if r['k'] == 'CallExpr' and r.get('callee') in ('MIR_malloc', 'MIR_calloc'):
                                            fresh = True
                            run.ob(rule, (u, g.name, d['l'], '*'), fresh, {'table': tab[-40:], 'site': '%s:%d %s' % (g.relfile(), d['l'], g.name),
                                                                          'element allocated here': fresh})
                            if not fresh:
                                run.violation(rule, g, '%s of %s' % (act['n'], elname), '%s stores %s into %s, which frees its elements, but '
                                              'the element is not allocated in this function' % (g.name, elname, tab[-30:]), line=d['l'])
    return n


# ---------------------------------------------------------------------------------------------
# RF3b: container growth is never an operand that a short circuit can skip
# ---------------------------------------------------------------------------------------------

GROWTH = ('expand', 'tailor', 'push', 'push_arr')


def rf3b(run, units=('mir', 'gen', 'c2mir')):
    rule = 'RF3b'
    run.rule(rule, 'no call that (re)sizes a VARR (expand, tailor, push, push_arr) is the right operand of && / || or an arm of ?: whose '
                   'value is then assumed by unconditional code: the short circuit would skip the growth and the following '
                   'accesses use the old capacity; every VARR_EXPAND call site is evaluated unconditionally within its statement')
    n = 0
    for u in units:
        tu = run.tu(u)
        for f in tu.func_list:
            if f.body is None:
                continue
            for x in f.walk():
                if x['k'] != 'CallExpr':
                    continue
                c = x.get('callee') or ''
                if not (c.startswith('VARR_') and any(c.endswith(g) for g in GROWTH)):
                    continue
                if f.name.startswith('VARR_'):
                    continue
                n += 1
                # climb to the enclosing full expression
                node, skipped = x, None
                for a in f.ancestors(x):
                    if a['k'] == 'BinaryOperator' and a.get('op') in ('&&', '||') and any(y is node for y in F.walk(a['c'][1])) and not any(y is node for y in F.walk(a['c'][0])):
                        # growth of one container guarded by the growth of another one is the defect shape; a guard that is a plain
                        # test (e.g. `p != NULL && VARR_PUSH`) is the author's explicit condition
                        lhs_grows = any(y['k'] == 'CallExpr' and (y.get('callee') or '').startswith('VARR_')
                                        and any((y.get('callee') or '').endswith(g) for g in GROWTH) for y in F.walk(a['c'][0]))
                        if lhs_grows:
                            skipped = a
                            break
                    if a['k'] in ('CompoundStmt', 'IfStmt', 'ForStmt', 'WhileStmt', 'DoStmt', 'ReturnStmt', 'DeclStmt'):
                        break
                ok = skipped is None
                run.ob(rule, (u, f.name, x['l']), ok)
                if not ok:
                    run.violation(rule, f, 'growth %s under a short circuit' % F.src(x)[:60],
                                  '%s is the right operand of `%s` whose left operand also grows a container: when the left one grows, this '
                                  'one is skipped and the code that follows indexes it with the new length (heap overflow)'
                                  % (F.src(x)[:70], skipped['op']), line=x['l'])
        run.functions_analysed.add((u, '*'))
    return n


# ---------------------------------------------------------------------------------------------
# RF2b: memory parked in MIR_item_t.data has one owner
# ---------------------------------------------------------------------------------------------

def rf2b(run):
    rule = 'RF2b'
    run.rule(rule, 'MIR_item_t.data is released by the MIR core (remove_item frees item->data at MIR_finish). Every block stored there by '
                   'the generator or the interpreter therefore comes from a plain allocation (gen_malloc / MIR_malloc) — never from '
                   'gen_malloc_and_mark_to_free, whose blocks MIR_gen_finish releases as well — or is freed by the storing unit which '
                   'then clears the field')
    mir = run.tu('mir')
    rm = mir.func('remove_item')
    frees_data = any(x['k'] == 'CallExpr' and x.get('callee') == 'MIR_free' and 'item->data' in F.src(F.call_args(x)[-1]) for x in rm.walk())
    if not frees_data:
        raise F.AnalysisBroken('remove_item no longer frees item->data: the ownership premise of the rule changed')
    n = 0
    for unit in ('gen', 'mir'):
        tu = run.tu(unit)
        for f in tu.func_list:
            if f.body is None:
                continue
            for x in f.walk():
                if x['k'] != 'BinaryOperator' or x['op'] != '=':
                    continue
                l = F.strip(x['c'][0])
                if l['k'] != 'MemberExpr' or l['n'] != 'data':
                    continue
                bt = tu.type(F.strip(l['c'][0]))
                if bt is None or 'MIR_item' not in bt.s:
                    continue
                # the allocation call feeding the store (through chained assignments)
                r = F.strip(x['c'][1])
                while r['k'] == 'BinaryOperator' and r['op'] == '=':
                    r = F.strip(r['c'][1])
                if r['k'] != 'CallExpr':
                    continue
                n += 1
                run.functions_analysed.add((unit, f.name))
                c = r.get('callee')
                ok = c != 'gen_malloc_and_mark_to_free'
                run.ob(rule, (unit, f.name, x['l']), ok, {'site': '%s:%d %s' % (f.relfile(), x['l'], f.name), 'allocator': c})
                if not ok:
                    run.violation(rule, f, 'block stored in item->data', '%s stores a block from gen_malloc_and_mark_to_free into %s: '
                                  'MIR_gen_finish frees it with the marked blocks and MIR_finish (remove_item) frees item->data again'
                                  % (f.name, F.src(l)), line=x['l'])
    if n < 3:
        raise F.AnalysisBroken('only %d allocations stored into MIR_item_t.data found (3 confirmed by hand)' % n)
    return n


# ---------------------------------------------------------------------------------------------
# RF78: a container created into a local variable is destroyed or handed over on every path
# ---------------------------------------------------------------------------------------------

def rf78(run, units=('c2mir', 'mir', 'gen')):
    rule = 'RF78'
    run.rule(rule, 'a VARR / HTAB / bitmap created into a local variable of a function is, on every path from the creation to a return of that '
                   'function, destroyed, returned, stored into a longer-lived object or passed to another function (which takes it over); a '
                   'path that reaches the exit with none of these loses the only reference (a block the user allocator never gets back)')
    n = 0
    for u in units:
        tu = run.tu(u)
        for f in tu.func_list:
            if not f.file.startswith('/repo') or f.cfg_raw is None or f.name.startswith(('VARR_', 'HTAB_', 'bitmap_', 'DLIST_')):
                continue
            creates = []
            for x in f.walk():
                if x['k'] == 'CallExpr' and CRE.match(x.get('callee') or ''):
                    a = F.call_args(x)
                    v = None
                    for a_ in a[:1]:
                        a_ = F.strip(a_)
                        if a_['k'] == 'UnaryOperator' and a_['op'] == '&':
                            a_ = F.strip(a_['c'][0])
                        if a_['k'] == 'DeclRefExpr' and a_.get('dk') == 'local':
                            v = a_['n']
                    par = f.parent.get(x['i'])
                    pn = f.nodes[par] if par is not None else None
                    if v is None and pn is not None and pn['k'] == 'BinaryOperator' and pn['op'] == '=' and F.strip(pn['c'][0])['k'] == 'DeclRefExpr' \
                            and F.strip(pn['c'][0]).get('dk') == 'local':
                        v = F.strip(pn['c'][0])['n']
                    if v is not None:
                        creates.append((x, v))
            if not creates:
                continue
            cfg = f.cfg
            for cx, v in creates:
                def consumes(e, v=v, cx=cx):
                    for y in cfg.local_walk(e):
                        if y is cx:
                            continue
                        if y['k'] == 'CallExpr':
                            cal = y.get('callee') or ''
                            for ai, a_ in enumerate(F.call_args(y)):
                                a0 = F.strip(a_)
                                if a0['k'] == 'UnaryOperator' and a0['op'] == '&':
                                    a0 = F.strip(a0['c'][0])
                                if a0['k'] == 'DeclRefExpr' and a0['n'] == v:
                                    if DES.match(cal):
                                        return True
                                    if not cal.startswith(('VARR_', 'HTAB_', 'bitmap_')):
                                        return True      # handed to another function
                                    if ai > 0 and cal.startswith(('VARR_', 'HTAB_')):
                                        return True      # stored as an element of another container
                        if y['k'] == 'ReturnStmt' and any(z['k'] == 'DeclRefExpr' and z['n'] == v for z in F.walk(y)):
                            return True
                        if y['k'] == 'BinaryOperator' and y['op'] == '=' and any(z['k'] == 'DeclRefExpr' and z['n'] == v for z in F.walk(y['c'][1])) \
                                and F.strip(y['c'][0])['k'] in ('MemberExpr', 'ArraySubscriptExpr', 'UnaryOperator', 'DeclRefExpr'):
                            l = F.strip(y['c'][0])
                            if not (l['k'] == 'DeclRefExpr' and l.get('dk') == 'local' and l['n'] == v):
                                return True      # stored somewhere (another variable, a field)
                        if y['k'] == 'DeclStmt':
                            for d in y['decls']:
                                if d.get('init') is not None and any(z['k'] == 'DeclRefExpr' and z['n'] == v for z in F.walk(d['init'])) and \
                                        F.strip(d['init'])['k'] in ('DeclRefExpr', 'InitListExpr', 'CompoundLiteralExpr'):
                                    return True
                    return False
                cb = cfg.block_of(cx)
                if cb is None:
                    continue
                # within the creating block after the creation
                B = cfg.blocks[cb]
                after, done = False, False
                for e in cfg.top_elems(B):
                    if any(y is cx for y in F.walk(e)):
                        after = True
                        if consumes(e):
                            done = True
                        continue
                    if after and consumes(e):
                        done = True
                leak = None
                if not done:
                    cons = {b for b, BB in cfg.blocks.items() if b != cb and any(consumes(e) for e in cfg.top_elems(BB))}
                    # after the creation the variable is not NULL: an `if (v != NULL)` / `if (v == NULL)` has one feasible edge
                    dead_edges = set()
                    for b, BB in cfg.blocks.items():
                        if BB.cond is None or len(BB.succs) != 2:
                            continue
                        ct = F.src(F.strip(BB.cond)).replace(' ', '').strip('()')
                        if ct in ('%s!=0' % v, '%s!=NULL' % v, v) and BB.succs[1] is not None:
                            dead_edges.add((b, BB.succs[1]))
                        elif ct in ('%s==0' % v, '%s==NULL' % v, '!%s' % v) and BB.succs[0] is not None:
                            dead_edges.add((b, BB.succs[0]))
                    # the variable set to NULL after a hand-over is an explicit "nothing left to destroy"
                    reach, work = set(), [cb]
                    while work:
                        b = work.pop()
                        if b in reach:
                            continue
                        reach.add(b)
                        if b in cons and b != cb:
                            continue
                        for s_ in cfg.live_succs(b):
                            if (b, s_) not in dead_edges:
                                work.append(s_)
                    reach -= cons
                    # the error function does not return
                    exits = [b for b in reach if b == cfg.exit or any(e['k'] == 'ReturnStmt' for e in cfg.blocks[b].elems)]
                    exits = [b for b in exits if not cfg.blocks[b].noreturn]
                    if exits:
                        leak = exits[0]
                n += 1
                run.functions_analysed.add((u, f.name))
                run.ob(rule, (u, f.name, cx['l']), leak is None, {'site': '%s:%d %s' % (f.relfile(), cx['l'], f.name), 'container': v} if n % 8 == 1 or leak is not None else None)
                if leak is not None:
                    run.violation(rule, f, 'container %s lost on a path' % v, 'the container created into `%s` at line %d reaches the end of %s on a path '
                                  'that neither destroys it nor hands it to anything: its blocks are never returned to the allocator' % (v, cx['l'], f.name),
                                  line=cx['l'])
    return n


# ---------------------------------------------------------------------------------------------
# RF78b: an object obtained from an allocating function into a local is linked, freed, returned or handed over on every path
# ---------------------------------------------------------------------------------------------
RAW_ALLOC = {'gen_malloc', 'MIR_malloc', 'MIR_calloc', 'gen_malloc_and_mark_to_free'}
RAW_FREE = {'gen_free', 'MIR_free', 'free'}


def _alloc_wrappers(tu):
    W = set()
    for _ in range(3):
        for f in tu.func_list:
            if f.name in W or f.name in RAW_ALLOC or f.body is None:
                continue
            srcs = set()
            for x in f.walk():
                if x['k'] == 'BinaryOperator' and x['op'] == '=' and F.strip(x['c'][0])['k'] == 'DeclRefExpr':
                    r = F.strip(x['c'][1])
                    if r['k'] == 'CallExpr' and (r.get('callee') in RAW_ALLOC or r.get('callee') in W):
                        srcs.add(F.strip(x['c'][0])['n'])
                elif x['k'] == 'DeclStmt':
                    for d in x['decls']:
                        if d.get('init') is not None:
                            r = F.strip(d['init'])
                            if r['k'] == 'CallExpr' and (r.get('callee') in RAW_ALLOC or r.get('callee') in W):
                                srcs.add(d['n'])
            rets = [F.strip(x['c'][0]) for x in f.walk() if x['k'] == 'ReturnStmt' and x.get('c') and x['c'][0] is not None]
            if srcs and rets and any(r['k'] == 'DeclRefExpr' and r['n'] in srcs for r in rets):
                # the function must hand the block to its caller only: if it links the block into something itself (stores the
                # pointer, passes it on), the caller receives a borrowed pointer and owes nothing
                owned = True
                top = {id(k_) for k_ in F.kids(f.body)}
                uncond = []
                for k_ in F.kids(f.body):
                    if k_['k'] not in ('IfStmt', 'ForStmt', 'WhileStmt', 'SwitchStmt', 'DoStmt'):
                        uncond.extend(F.walk(k_))
                for x in uncond:
                    if x['k'] == 'CallExpr' and x.get('callee') not in RAW_ALLOC and x.get('callee') not in ('memset', 'memcpy'):
                        if any(F.strip(a_)['k'] == 'DeclRefExpr' and F.strip(a_)['n'] in srcs for a_ in F.call_args(x)):
                            owned = False
                    if x['k'] == 'BinaryOperator' and x['op'] == '=' and F.strip(x['c'][1])['k'] == 'DeclRefExpr' and F.strip(x['c'][1])['n'] in srcs \
                            and not (F.strip(x['c'][0])['k'] == 'DeclRefExpr' and F.strip(x['c'][0]).get('dk') == 'local'):
                        owned = False
                if owned:
                    W.add(f.name)
    return W


def rf78b(run, units=('gen',)):
    rule = 'RF78b'
    run.rule(rule, 'an object that a function obtains from an allocating function (gen_malloc / MIR_malloc or a wrapper that returns such a '
                   'block to its caller only, e.g. create_loop_node) into a local variable is, on every path to an early `return 0 / FALSE / '
                   'NULL` of that function, freed, stored into another object or variable, or passed to another function; reading its '
                   'fields is not a hand-over')
    n = 0
    for u in units:
        tu = run.tu(u)
        W = _alloc_wrappers(tu)
        for f in tu.func_list:
            if not f.file.startswith('/repo') or f.cfg_raw is None or f.name in W or f.name.startswith(('VARR_', 'HTAB_', 'bitmap_', 'DLIST_')):
                continue
            sites = []
            for x in f.walk():
                if x['k'] == 'BinaryOperator' and x['op'] == '=' and F.strip(x['c'][0])['k'] == 'DeclRefExpr' and F.strip(x['c'][0]).get('dk') == 'local':
                    r = F.strip(x['c'][1])
                    if r['k'] == 'CallExpr' and (r.get('callee') in RAW_ALLOC or r.get('callee') in W):
                        sites.append((x, F.strip(x['c'][0])['n'], r.get('callee')))
                elif x['k'] == 'DeclStmt':
                    for d in x['decls']:
                        if d.get('init') is not None:
                            r = F.strip(d['init'])
                            if r['k'] == 'CallExpr' and (r.get('callee') in RAW_ALLOC or r.get('callee') in W):
                                sites.append((x, d['n'], r.get('callee')))
            if not sites:
                continue
            cfg = f.cfg
            for sx, v, how in sites:
                def consumes(e, v=v, sx=sx):
                    for y in cfg.local_walk(e):
                        if y is sx:
                            continue
                        if y['k'] == 'CallExpr':
                            for a_ in F.call_args(y):
                                a0 = F.strip(a_)
                                if a0['k'] == 'DeclRefExpr' and a0['n'] == v:
                                    return True
                        if y['k'] == 'ReturnStmt' and y.get('c') and y['c'][0] is not None and F.strip(y['c'][0])['k'] == 'DeclRefExpr' and F.strip(y['c'][0])['n'] == v:
                            return True
                        if y['k'] == 'BinaryOperator' and y['op'] == '=' and F.strip(y['c'][1])['k'] == 'DeclRefExpr' and F.strip(y['c'][1])['n'] == v:
                            l = F.strip(y['c'][0])
                            if not (l['k'] == 'DeclRefExpr' and l['n'] == v):
                                return True
                        if y['k'] == 'DeclStmt':
                            for d in y['decls']:
                                if d.get('init') is not None and F.strip(d['init'])['k'] == 'DeclRefExpr' and F.strip(d['init'])['n'] == v and d['n'] != v:
                                    return True
                    return False
                cb = cfg.block_of(sx)
                if cb is None:
                    continue
                B = cfg.blocks[cb]
                after, done = False, False
                for e in cfg.top_elems(B):
                    if any(y is sx for y in F.walk(e)) or e is sx:
                        after = True
                        continue
                    if after and consumes(e):
                        done = True
                leak = None
                if not done:
                    cons = {b for b, BB in cfg.blocks.items() if b != cb and any(consumes(e) for e in cfg.top_elems(BB))}
                    dead_edges = set()
                    for b, BB in cfg.blocks.items():
                        if BB.cond is None or len(BB.succs) != 2:
                            continue
                        ct = F.src(F.strip(BB.cond)).replace(' ', '').strip('()')
                        if ct in ('%s!=0' % v, '%s!=NULL' % v, v) and BB.succs[1] is not None:
                            dead_edges.add((b, BB.succs[1]))
                        elif ct in ('%s==0' % v, '%s==NULL' % v, '!%s' % v) and BB.succs[0] is not None:
                            dead_edges.add((b, BB.succs[0]))
                    reach, work = set(), [cb]
                    while work:
                        b = work.pop()
                        if b in reach:
                            continue
                        reach.add(b)
                        if b in cons and b != cb:
                            continue
                        for s_ in cfg.live_succs(b):
                            if (b, s_) not in dead_edges:
                                work.append(s_)
                    reach -= cons
                    # only the early "nothing done" exits are judged (return of a zero constant): on the normal path the object is
                    # usually linked inside a loop whose zero-iteration path is infeasible, which this rule cannot see
                    exits = [b for b in reach if any(e['k'] == 'ReturnStmt' and e.get('c') and e['c'][0] is not None and F.const_value(F.strip(e['c'][0])) == 0
                                                     for e in cfg.blocks[b].elems) and not cfg.blocks[b].noreturn]
                    if exits:
                        leak = exits[0]
                n += 1
                run.functions_analysed.add((u, f.name))
                run.ob(rule, (u, f.name, sx['l']), leak is None, {'site': '%s:%d %s' % (f.relfile(), sx['l'], f.name), 'object': v, 'from': how} if n % 8 == 1 or leak is not None else None)
                if leak is not None:
                    run.violation(rule, f, 'object %s lost on a path' % v, 'the block that `%s` receives from %s at line %d reaches a return of %s on a '
                                  'path on which it is neither linked into anything, nor freed, returned or handed over: it is never given back to '
                                  'the allocator' % (v, how, sx['l'], f.name), line=sx['l'])
    return n


# ---------------------------------------------------------------------------------------------
# RF109: c2mir's region allocator is released only where the session ends
# ---------------------------------------------------------------------------------------------

def rf109(run):
    rule = 'RF109'
    run.rule(rule, 'c2mir: blocks obtained with reg_malloc are referenced from tables that live for the whole c2mir session (str_add stores '
                   'reg_malloc\'ed strings in str_tab / str_key_tab, created by c2mir_init and destroyed by c2mir_finish).  The release '
                   'routine reg_memory_pop is therefore not reachable, in the call graph, from c2mir_compile; its callers lead only to '
                   'c2mir_finish')
    tu = run.tu('c2mir')
    for nm in ('reg_memory_pop', 'reg_malloc', 'c2mir_compile', 'c2mir_finish', 'c2mir_init', 'str_add'):
        tu.func(nm)
    # the premise, read off the code: str_add allocates from the region and the tables are created in c2mir_init
    sa = tu.func('str_add')
    premise = any(x['k'] == 'CallExpr' and x.get('callee') == 'reg_malloc' for x in sa.walk()) and \
        any(x['k'] == 'CallExpr' and (x.get('callee') or '').startswith('HTAB_tab_str_t') for x in sa.walk())
    init_reach = tu.reachable(['c2mir_init'])
    premise = premise and any(x['k'] == 'CallExpr' and (x.get('callee') or '').startswith('HTAB_tab_str_t') and (x.get('callee') or '').endswith('create')
                              for g in init_reach for x in tu.funcs[g].walk())
    if not premise:
        raise F.AnalysisBroken('RF109: str_add no longer stores region memory in a session-lifetime table; the rule needs to be reviewed')
    reach = tu.reachable(['c2mir_compile'])
    run.functions_analysed.update(('c2mir', g) for g in ('reg_memory_pop', 'c2mir_compile', 'c2mir_finish', 'str_add'))
    ok = 'reg_memory_pop' not in reach
    run.ob(rule, ('reg_memory_pop',), ok, {'functions reachable from c2mir_compile': len(reach), 'reg_memory_pop among them': not ok})
    if not ok:
        # a call chain for the message
        cg = tu.callgraph()
        prev = {'c2mir_compile': None}
        st = ['c2mir_compile']
        while st:
            x = st.pop(0)
            for c in sorted(cg.get(x, ())):
                if c in tu.funcs and c not in prev:
                    prev[c] = x
                    st.append(c)
        chain, x = [], 'reg_memory_pop'
        while x is not None:
            chain.append(x)
            x = prev.get(x)
        g = tu.funcs[chain[1]] if len(chain) > 1 else tu.func('reg_memory_pop')
        run.violation(rule, g, 'region released during the session', 'reg_memory_pop is reachable from c2mir_compile (%s): strings that str_add put into the '
                      'session-lifetime string tables are returned to the allocator while the tables still point at them; the next '
                      'c2mir_compile of the session reads freed memory (kw_add → str_exists_p)' % ' <- '.join(chain), line=g.line)
    return 1


# ---------------------------------------------------------------------------------------------
# RF122: interpreter data made while linking is released on every way out of MIR_link
# ---------------------------------------------------------------------------------------------

def _always_calls(s, callee):
    if s is None:
        return False
    k = s['k']
    if k == 'CallExpr' and s.get('callee') == callee:
        return True
    if k == 'IfStmt':
        if len(s['c']) > 2 and s['c'][2] is not None:
            return _always_calls(s['c'][1], callee) and _always_calls(s['c'][2], callee)
        # a filter on the kind of the item (`if (item->item_type == MIR_func_item) …`) selects the objects the obligation is about
        return 'item_type' in F.src(s['c'][0]) and _always_calls(s['c'][1], callee)
    if k in ('ForStmt', 'WhileStmt', 'DoStmt'):
        body = s['c'][-1] if k != 'DoStmt' else s['c'][0]
        return _always_calls(body, callee)
    if k in ('SwitchStmt', 'ConditionalOperator', 'BinaryConditionalOperator'):
        return False
    return any(_always_calls(c, callee) for c in F.kids(s))


def rf122(run):
    rule = 'RF122'
    run.rule(rule, 'MIR_link evaluates expr data by interpreting their functions, which leaves interpreter data in func_item->data — the '
                   'field that the next MIR_link reads as "inlining pending".  Behind the evaluation, every branch of MIR_link (interface '
                   'given or NULL) calls finish_func_interpretation for the functions of the modules (structural: both arms of each '
                   'branch, loop bodies counted as executed)')
    tu = run.tu('mir')
    f = tu.func('MIR_link')
    run.functions_analysed.add(('mir', f.name))
    top = F.kids(f.body)
    idx = [i for i, s_ in enumerate(top) if any(y['k'] == 'CallExpr' and (y.get('callee') or '').startswith('MIR_interp') for y in F.walk(s_))]
    if not idx:
        raise F.AnalysisBroken('MIR_link: the evaluation of expr data (MIR_interp) was not found at the top level')
    rest = top[idx[-1] + 1:]
    ok = any(_always_calls(s_, 'finish_func_interpretation') for s_ in rest)
    run.ob(rule, ('MIR_link',), ok, {'statements behind the evaluation': len(rest), 'released on every branch': ok})
    if not ok:
        run.violation(rule, f, 'interpreter data kept across MIR_link', 'behind the evaluation of expr data there is a way out of MIR_link that '
                      'does not call finish_func_interpretation (e.g. set_interface == NULL): the interpreter data of the expr function '
                      'stays in item->data, the next MIR_link treats it as the inlining flag, resets it and the block is never freed',
                      line=top[idx[-1]]['l'])
    return 1


# ---------------------------------------------------------------------------------------------
# RF130: an owning slot of the generator context is not cleared while it may own an object
# ---------------------------------------------------------------------------------------------

def rf130(run):
    import re
    rule = 'RF130'
    run.rule(rule, 'mir-gen.c: a slot of the generator context that receives objects created on demand (`slot = bitmap_create…` / '
                   '`…_create`) and is destroyed only when the generator finishes owns its object across functions.  An assignment of NULL '
                   'to such a slot is reachable only from MIR_gen_init, or directly follows the destruction of the slot: a reset per '
                   'generated function drops the previous function\'s objects (never returned to the user allocator)')
    tu = run.tu('gen')

    def slot(e):
        t = F.src(F.strip(e)).replace(' ', '')
        return re.sub(r'\[[^\]]*\]', '[]', t)
    creators = {}
    nulls = []
    for g in tu.func_list:
        if g.body is None or not g.file.startswith('/repo'):
            continue
        for x in g.walk():
            if x['k'] == 'BinaryOperator' and x['op'] == '=':
                l = F.strip(x['c'][0])
                if l['k'] not in ('MemberExpr', 'ArraySubscriptExpr') or not slot(l).startswith('gen_ctx->'):
                    continue
                r = F.strip(x['c'][1])
                if r['k'] == 'CallExpr' and re.search(r'(^bitmap_create|create2?$|_create$)', r.get('callee') or ''):
                    creators.setdefault(slot(l), []).append((g, x))
                elif F.const_value(r) == 0 and tu.type(l) is not None and tu.type(l).kind == 'ptr':
                    nulls.append((slot(l), g, x))
    work = tu.reachable(['generate_func_code', 'generate_bb_version_machine_code', 'bb_version_generator'])
    n = 0
    for s_, g, x in nulls:
        if s_ not in creators:
            continue
        n += 1
        run.functions_analysed.add(('gen', g.name))
        ok = g.name not in work
        if not ok:
            # directly behind a destroy of the same slot?
            cfg = g.cfg
            b = cfg.block_of(x)
            B = cfg.blocks[b] if b is not None else None
            if B is not None:
                for e in B.elems:
                    if e['k'] == 'CallExpr' and 'destroy' in (e.get('callee') or '') and F.call_args(e) and slot(F.call_args(e)[0]) == s_ and e['l'] <= x['l']:
                        ok = True
        run.ob(rule, (g.name, x['l']), ok, {'slot': s_, 'cleared in': g.name, 'created in': sorted({c[0].name for c in creators[s_]}),
                                            'reachable while generating': g.name in work})
        if not ok:
            run.violation(rule, g, 'owning slot %s cleared per function' % s_.split('->')[-1], '`%s` sets `%s` to NULL in %s, which runs for every '
                          'generated function, while the objects it holds are created on demand (%s) and destroyed only at MIR_gen_finish: the '
                          'objects of the previous function are dropped and never freed' %
                          (F.src(x)[:60], s_, g.name, ', '.join(sorted({c[0].name for c in creators[s_]}))), line=x['l'])
    if not creators:
        raise F.AnalysisBroken('RF130: no on-demand creations found in the generator')
    run.min_instances(rule, 1) if False else None
    return n


# ---------------------------------------------------------------------------------------------
# RF137: the bb_insn of a deleted instruction is not used again
# ---------------------------------------------------------------------------------------------

def rf137(run):
    rule = 'RF137'
    run.rule(rule, 'mir-gen.c: ssa_delete_insn / gen_delete_insn (insn) free the bb_insn attached to the instruction (insn->data), '
                   'delete_bb_insn (bb_insn) frees its argument.  In every function, a local bb_insn variable that is tied to the deleted '
                   'instruction (`insn = b->insn` or `b = insn->data` earlier in the function) is not read on any path behind the deleting '
                   'call until it is assigned again (forward may-analysis over the CFG; a test `if (ssa_delete_insn_if_dead_p (…)) continue` '
                   'kills on its true edge only)')
    tu = run.tu('gen')
    KILL_I = ('ssa_delete_insn', 'gen_delete_insn')
    KILL_B = ('delete_bb_insn',)
    n = 0
    for g in tu.func_list:
        if g.body is None or not g.file.startswith('/repo') or g.cfg_raw is None:
            continue
        calls = [x for x in g.walk() if x['k'] == 'CallExpr' and x.get('callee') in KILL_I + KILL_B]
        if not calls:
            continue
        # alias pairs (insn variable -> bb_insn variables)
        pairs = {}
        for x in g.walk():
            if x['k'] == 'BinaryOperator' and x['op'] == '=':
                l, r = F.strip(x['c'][0]), F.strip(x['c'][1])
                if l['k'] == 'DeclRefExpr' and r['k'] == 'MemberExpr' and r['n'] == 'insn' and F.strip(r['c'][0])['k'] == 'DeclRefExpr':
                    pairs.setdefault(l['n'], set()).add(F.strip(r['c'][0])['n'])      # insn = b->insn
                if l['k'] == 'DeclRefExpr' and r['k'] == 'MemberExpr' and r['n'] == 'data' and F.strip(r['c'][0])['k'] == 'DeclRefExpr':
                    pairs.setdefault(F.strip(r['c'][0])['n'], set()).add(l['n'])      # b = insn->data
            if x['k'] == 'DeclStmt':
                for d in x.get('decls', []):
                    r = F.strip(d['init']) if d.get('init') is not None else None
                    if r is not None and r['k'] == 'MemberExpr' and F.strip(r['c'][0])['k'] == 'DeclRefExpr':
                        if r['n'] == 'insn':
                            pairs.setdefault(d['n'], set()).add(F.strip(r['c'][0])['n'])
                        if r['n'] == 'data':
                            pairs.setdefault(F.strip(r['c'][0])['n'], set()).add(d['n'])
        cfg = g.cfg
        run.functions_analysed.add(('gen', g.name))

        def kills(x):
            a = [F.strip(y) for y in F.call_args(x)]
            if x['callee'] in KILL_I and len(a) > 1:
                if a[1]['k'] == 'DeclRefExpr':
                    return set(pairs.get(a[1]['n'], ()))
                if a[1]['k'] == 'MemberExpr' and a[1]['n'] == 'insn' and F.strip(a[1]['c'][0])['k'] == 'DeclRefExpr':
                    return {F.strip(a[1]['c'][0])['n']}
            if x['callee'] in KILL_B and len(a) > 1 and a[1]['k'] == 'DeclRefExpr':
                return {a[1]['n']}
            return set()
        hits = {}

        def transfer(B, dead, report):
            dead = set(dead)
            seen = set()
            for e in B.elems:
                for x in reversed(list(cfg.local_walk(e))):
                    if x['i'] in seen:
                        continue
                    seen.add(x['i'])
                    if x['k'] == 'DeclRefExpr' and x['n'] in dead:
                        p_ = g.parent_of(x)
                        is_def = p_ is not None and p_['k'] == 'BinaryOperator' and p_['op'] == '=' and F.strip(p_['c'][0]) is x
                        if not is_def and report is not None:
                            report.setdefault(x['n'], x)
                if e['k'] == 'DeclStmt':
                    for d in e.get('decls', []):
                        dead.discard(d['n'])      # a declaration (with or without initialiser) starts a new object
                for x in reversed(list(cfg.local_walk(e))):
                    if x['k'] == 'BinaryOperator' and x['op'] == '=' and F.strip(x['c'][0])['k'] == 'DeclRefExpr':
                        dead.discard(F.strip(x['c'][0])['n'])
                    if x['k'] == 'CallExpr' and x.get('callee') in KILL_I + KILL_B:
                        dead |= kills(x)
            return dead
        inn = {b: set() for b in cfg.blocks}
        changed = True
        it = 0
        while changed and it < 50:
            changed = False
            it += 1
            for b in cfg.rpo():
                out = transfer(cfg.blocks[b], inn[b], None)
                for s_ in cfg.live_succs(b):
                    if not out <= inn[s_]:
                        inn[s_] |= out
                        changed = True
        rep = {}
        for b in cfg.blocks:
            transfer(cfg.blocks[b], inn[b], rep)
        n += 1
        run.ob(rule, (g.name,), not rep, {'function': g.name, 'deleting calls': len(calls), 'tied variables': {k: sorted(v) for k, v in pairs.items()}} if n % 6 == 1 or rep else None)
        for v, x in rep.items():
            run.violation(rule, g, 'use of %s behind the deletion of its instruction' % v, '`%s` is read at line %d on a path behind a call that deleted the '
                          'instruction it belongs to (the bb_insn was returned to the allocator): use after free, and the block is freed again '
                          'when the function\'s CFG is destroyed' % (v, x['l']), line=x['l'])
    if n < 5:
        raise F.AnalysisBroken('RF137: only %d functions with deleting calls' % n)
    return n


# ---------------------------------------------------------------------------------------------
# RF152: a module moved to another context takes all its names along
# ---------------------------------------------------------------------------------------------

def rf152(run):
    rule = 'RF152'
    run.rule(rule, 'MIR_change_module_ctx re-interns the strings of a module in the new context, because MIR_finish of the old context frees '
                   'its string table.  Every field of MIR_func and MIR_proto that holds a vector of named variables (type VARR (MIR_var_t) *, '
                   'taken from the struct declarations) is handed to change_var_names — in the function itself or in a helper it calls — '
                   'so vars, global_vars and prototype args all follow the module')
    tu = run.tu('mir')
    f = tu.func('MIR_change_module_ctx')
    run.functions_analysed.add(('mir', f.name))
    want = []
    for rec in ('MIR_func', 'MIR_proto'):
        r = tu.records.get(rec)
        if r is None:
            raise F.AnalysisBroken('RF152: struct %s not found' % rec)
        for fld in r['fields']:
            if 'VARR_MIR_var_t' in tu.types[fld['t']].s or 'MIR_var_t' in tu.types[fld['t']].s and 'VARR' in tu.types[fld['t']].s:
                want.append((rec, fld['n']))
    if len(want) < 3:
        raise F.AnalysisBroken('RF152: only %d variable vectors found in MIR_func / MIR_proto' % len(want))
    scope = [f] + [tu.funcs[c] for c in tu.callgraph().get(f.name, ()) if c in tu.funcs and tu.funcs[c].body is not None and c != 'change_var_names']
    passed = set()
    for g in scope:
        # fields passed (directly or through a local / a returned value of a helper) to change_var_names, or returned by a helper
        for x in g.walk():
            if x['k'] == 'MemberExpr' and x['n'] in {n_ for _, n_ in want}:
                p_ = g.parent_of(x)
                up = x
                direct = False
                while p_ is not None and (p_['k'] in F.CASTS or p_['k'] == 'ParenExpr'):
                    up, p_ = p_, g.parent_of(p_)
                if p_ is not None and p_['k'] == 'CallExpr' and p_.get('callee') == 'change_var_names':
                    direct = True
                if p_ is not None and p_['k'] == 'ReturnStmt' and g is not f:
                    direct = True      # a selector helper whose result the caller passes on
                if direct:
                    passed.add(x['n'])
    n = 0
    for rec, fld in want:
        ok = fld in passed
        n += 1
        run.ob(rule, (rec, fld), ok, {'struct': rec, 'field': fld, 'names moved to the new context': ok})
        if not ok:
            run.violation(rule, f, 'names of %s->%s stay in the old context' % (rec, fld), 'MIR_change_module_ctx does not pass %s.%s to change_var_names: '
                          'the names keep pointing into the string table of the old context, and after MIR_finish (old_ctx) printing, writing or '
                          'linking the moved module reads freed memory' % (rec, fld), line=f.line)
    return n


# ---------------------------------------------------------------------------------------------
# RF164: a macro call under construction is not on the macro call stack
# ---------------------------------------------------------------------------------------------

def rf164(run):
    import rf_proto
    rule = 'RF164'
    run.rule(rule, 'c2mir preprocessor: find_args pops the *top* of macro_call_stack when the argument list runs past the end of the enclosing '
                   'macro\'s replacement (`#define G F (41` … `G)`), and pop_macro_call frees what it pops.  The call whose arguments are '
                   'being collected is therefore pushed only after find_args has returned: in every function that hands a macro call to '
                   'find_args, no push of that object (directly, or by a helper that creates and pushes it) reaches the find_args call')
    tu = run.tu('c2mir')
    PUSH = 'VARR_macro_call_tpush'
    # find_args can pop
    run.control(rule, 'find_args reaches pop_macro_call', 'pop_macro_call' in tu.reachable(['find_args']))
    # helpers that return an object they pushed
    pushing_helpers = set()
    for g in tu.func_list:
        if g.body is None or not g.file.startswith('/repo'):
            continue
        pushed = set()
        for x in g.walk():
            if x['k'] == 'CallExpr' and x.get('callee') == PUSH:
                a = F.call_args(x)
                if len(a) >= 2 and 'macro_call_stack' in F.src(a[0]):
                    pushed.add(F.src(F.strip(a[1])))
        if pushed and any(x['k'] == 'ReturnStmt' and F.kids(x) and F.src(F.strip(F.kids(x)[0])) in pushed for x in g.walk()):
            pushing_helpers.add(g.name)
    n = 0
    for g in tu.func_list:
        if g.body is None or not g.file.startswith('/repo') or g.name == 'find_args':
            continue
        fa = [x for x in g.walk() if x['k'] == 'CallExpr' and x.get('callee') == 'find_args']
        if not fa:
            continue
        cfg = g.cfg
        run.functions_analysed.add(('c2mir', g.name))
        for c in fa:
            mc = F.src(F.strip(F.call_args(c)[1]))
            cb = cfg.block_of(c)
            push_blocks = {}
            for b, B in cfg.blocks.items():
                for k, el in enumerate(B.elems):
                    for y in F.walk(el):
                        if y['k'] == 'CallExpr' and y.get('callee') == PUSH and len(F.call_args(y)) >= 2 and \
                                'macro_call_stack' in F.src(F.call_args(y)[0]) and F.src(F.strip(F.call_args(y)[1])) == mc:
                            push_blocks.setdefault(b, []).append((k, y['l'], 'pushed'))
                        if y['k'] == 'BinaryOperator' and y['op'] == '=' and F.src(F.strip(y['c'][0])) == mc and \
                                F.strip(y['c'][1])['k'] == 'CallExpr' and F.strip(y['c'][1]).get('callee') in pushing_helpers:
                            push_blocks.setdefault(b, []).append((k, y['l'], 'created and pushed by %s' % F.strip(y['c'][1])['callee']))
            bad = None
            for b, lst in push_blocks.items():
                if b == cb:
                    # same block: order of the elements
                    ck = next((k for k, el in enumerate(cfg.blocks[cb].elems) if any(y is c for y in F.walk(el))), None)
                    for k, l, how in lst:
                        if ck is not None and k <= ck and l <= c['l']:
                            bad = (l, how)
                    # a loop may also bring the push in front of the call
                    if bad is None and cb in cfg.reachable_from(cb, avoid=lambda bb: False) - {cb} and any(cb in cfg.live_succs(p_) for p_ in cfg.reachable_from(cb)):
                        pass
                elif cb in cfg.reachable_from(b):
                    bad = (lst[0][1], lst[0][2])
            n += 1
            ok = bad is None
            run.ob(rule, (g.name, c['l']), ok, {'site': '%s:%d %s' % (g.relfile(), c['l'], g.name), 'macro call': mc,
                                               'pushes of it in the function': sum(len(v) for v in push_blocks.values())})
            if not ok:
                run.violation(rule, g, 'macro call on the stack while its arguments are read', '%s hands `%s` to find_args (line %d) after it was %s '
                              '(line %d): when the argument list leaves the enclosing macro\'s replacement, find_args pops and frees the '
                              'top of the stack — this very call — and goes on writing its `args`' % (g.name, mc, c['l'], bad[1], bad[0]), line=c['l'])
    run.control(rule, 'find_args call sites found', n >= 1)
    npush = sum(1 for g in tu.func_list if g.body is not None for x in g.walk()
                if x['k'] == 'CallExpr' and x.get('callee') == PUSH and 'macro_call_stack' in F.src(F.call_args(x)[0]))
    run.control(rule, 'pushes onto macro_call_stack seen', npush >= 2)
    return n


# ---------------------------------------------------------------------------------------------
# RF181: a redundant declaration item has exactly one releaser
# ---------------------------------------------------------------------------------------------

RF181_CALLERS = ('new_export_import_forward', 'MIR_new_bss', 'MIR_new_data', 'MIR_new_ref_data', 'MIR_new_lref_data', 'MIR_new_expr_data')


def rf181(run):
    rule = 'RF181'
    run.rule(rule, 'mir.c: add_item may answer with an item that is already in the module (repeated import, export of an exported definition, '
                   'the same declaration twice); the freshly created item is then redundant.  For each of the six creating functions '
                   '(frozen list) either the caller releases it under `result != item`, or add_item releases its parameter at *every* place '
                   'where it switches to the existing item — never a mixture: a place served by neither leaks one item per repeated '
                   'declaration, a place served by both frees it twice')
    tu = run.tu('mir')
    f = tu.func('add_item')
    run.functions_analysed.add(('mir', f.name))
    pname = f.params[1]['n']
    # places where add_item switches to another item
    sites = []
    for x in f.walk():
        if x['k'] == 'BinaryOperator' and x['op'] == '=' and F.src(F.strip(x['c'][0])) == pname and F.strip(x['c'][1])['k'] == 'DeclRefExpr' \
                and F.strip(x['c'][1])['n'] != pname:
            sites.append(x)
        if x['k'] == 'ReturnStmt' and F.kids(x) and F.strip(F.kids(x)[0])['k'] == 'DeclRefExpr' and F.strip(F.kids(x)[0])['n'] != pname:
            sites.append(x)
    if not sites:
        raise F.AnalysisBroken('add_item: no place that answers with an existing item was found')

    def freed_before(x):
        st = x
        p_ = f.parent_of(st)
        while p_ is not None and p_['k'] != 'CompoundStmt':
            st, p_ = p_, f.parent_of(p_)
        if p_ is None:
            return False
        for s_ in F.kids(p_):
            if s_ is st:
                return False
            if any(y['k'] == 'CallExpr' and (y.get('callee') or '').endswith('free') and any(F.src(F.strip(a)) == pname for a in F.call_args(y))
                   for y in F.walk(s_)):
                return True
        return False
    inside = [freed_before(x) for x in sites]
    callers = {}
    for fn in RF181_CALLERS:
        g = tu.func(fn)
        if g is None or g.body is None:
            raise F.AnalysisBroken('%s not found' % fn)
        run.functions_analysed.add(('mir', fn))
        frees = False
        for x in g.walk():
            if x['k'] == 'IfStmt' and any(y['k'] == 'CallExpr' and y.get('callee') == 'add_item' for y in F.walk(x['c'][0])):
                call = next(y for y in F.walk(x['c'][0]) if y['k'] == 'CallExpr' and y.get('callee') == 'add_item')
                arg = F.src(F.strip(F.call_args(call)[1]))
                frees = any(y['k'] == 'CallExpr' and (y.get('callee') or '').endswith('free') and any(F.src(F.strip(a)) == arg for a in F.call_args(y))
                            for y in F.walk(x['c'][1]))
        callers[fn] = frees
    n = 0
    for fn, cf in callers.items():
        n += 1
        if cf:
            ok = not any(inside)
            why = 'the caller releases the redundant item and add_item releases it as well (line %d): freed twice' % \
                  next(x['l'] for x, i_ in zip(sites, inside) if i_) if not ok else None
        else:
            ok = all(inside)
            why = 'neither %s nor add_item releases the redundant item when add_item answers with the existing one at line %d: one item leaks per ' \
                  'repeated declaration' % (fn, next(x['l'] for x, i_ in zip(sites, inside) if not i_)) if not ok else None
        run.ob(rule, (fn,), ok, {'creating function': fn, 'releases under result != item': cf,
                                'places where add_item answers with an existing item': [x['l'] for x in sites], 'released there': inside})
        if not ok:
            run.violation(rule, tu.func(fn), 'redundant item of %s' % fn, why, line=tu.func(fn).line)
    return n


# ---------------------------------------------------------------------------------------------
# RF185: MIR_link does not overwrite interpreter data with its inlining flag
# ---------------------------------------------------------------------------------------------

def rf185(run):
    import rf_proto
    rule = 'RF185'
    run.rule(rule, 'MIR_link uses `item->data` of a function as a flag ("has calls to inline") between its two loops.  A module may be loaded '
                   'and linked again after its functions were interpreted, and then the field still owns the interpreter\'s func_desc.  Every '
                   'store of a non-null value into `item->data` in MIR_link is preceded on all paths by finish_func_interpretation (item) — '
                   'or by a test that the field is NULL — within the same item')
    tu = run.tu('mir')
    f = tu.func('MIR_link')
    cfg = f.cfg
    run.functions_analysed.add(('mir', f.name))
    idom = cfg.dominators()
    rel = set(rf_proto.calls_in(cfg, 'finish_func_interpretation'))
    n = 0
    for x in f.walk():
        if not (x['k'] == 'BinaryOperator' and x['op'] == '=' and F.src(F.strip(x['c'][0])).replace(' ', '') == 'item->data'):
            continue
        r = F.strip(x['c'][1])
        if F.const_value(r) == 0 or F.src(r) in ('NULL', '((void*)0)', '((void *)0)'):
            continue
        b = cfg.block_of(x)
        conds = rf_proto.dominating_conditions(cfg, b) if b is not None else []
        guarded = any('item->data' in c and ((('==' in c) and t) or (('!=' in c) and not t)) for c, t in conds)
        released = b in rel or any(cfg.dominates(rb, b, idom) for rb in rel if rb != b)
        # the release must belong to the same item: it lies inside the loop over the items that contains the store
        ok = guarded or released
        n += 1
        run.ob(rule, (x['l'],), ok, {'site': '%s:%d' % (f.relfile(), x['l']), 'store': F.src(x)[:50], 'released or tested first': ok})
        if not ok:
            run.violation(rule, f, 'interpreter data overwritten by the inline flag', 'MIR_link stores `%s` (line %d) into a field that may still own the '
                          'interpreter\'s prepared code of the function (module loaded and linked again after an interpretation): the block is '
                          'never released' % (F.src(x)[:40], x['l']), line=x['l'])
    run.control(rule, 'the inline flag store of MIR_link found', n >= 1)
    return n


# ---------------------------------------------------------------------------------------------
# RF189: the environment item made by setup_global is released or listed on every path
# ---------------------------------------------------------------------------------------------

def rf189(run):
    import rf_proto
    rule = 'RF189'
    run.rule(rule, 'setup_global creates an import item for the name (create-only, owned by nobody yet).  On every path to the return the item '
                   'is either released (MIR_free) — the name is already in the environment — or appended to environment_module.items, the '
                   'list MIR_finish walks to free the items.  Being handed to the hash table is not ownership: an insertion with an existing '
                   'key keeps the old element, and the table never frees elements')
    tu = run.tu('mir')
    f = tu.func('setup_global')
    cfg = f.cfg
    run.functions_analysed.add(('mir', f.name))
    crea = [x for x in f.walk() if x['k'] == 'BinaryOperator' and x['op'] == '=' and F.strip(x['c'][1])['k'] == 'CallExpr'
            and F.strip(x['c'][1]).get('callee') in ('new_export_import_forward', 'create_item')]
    if len(crea) != 1:
        raise F.AnalysisBroken('setup_global: the creation of the item was not found')
    var = F.src(F.strip(crea[0]['c'][0]))
    owners = set()
    for b, B in cfg.blocks.items():
        for el in B.elems:
            for y in F.walk(el):
                if y['k'] == 'CallExpr' and y.get('callee') and (y['callee'].endswith('free') or 'DLIST_MIR_item_t_append' in y['callee']):
                    if any(F.src(F.strip(a)) == var for a in F.call_args(y)):
                        owners.add(b)
    cb = cfg.block_of(crea[0])
    leak = cfg.exit in cfg.reachable_from(cb, avoid=lambda b: b in owners and b != cb) and cb not in owners
    run.ob(rule, ('item',), not leak, {'item variable': var, 'blocks that free or list it': len(owners), 'a path to the return without either': leak})
    if leak:
        run.violation(rule, f, 'environment item neither freed nor listed', 'setup_global can return without freeing `%s` and without appending it to '
                      'environment_module.items: when the name is already registered the new item is dropped — one item per repeated global '
                      'name is never returned to the allocator' % var, line=crea[0]['l'])
    run.control(rule, 'release and listing of the item found', len(owners) >= 2 or leak)
    return 1
