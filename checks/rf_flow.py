"""Path / protocol rules: RF20 loop progress, RF16 must-pass-through protocols, RF18 flag producers."""
from lib import facts as F
from lib import enumflow as EF
from lib import regions as R


def _split_comma(e):
    e = F.strip(e)
    if e is not None and e['k'] == 'BinaryOperator' and e['op'] == ',':
        return _split_comma(e['c'][0]) + _split_comma(e['c'][1])
    return [e] if e is not None else []


def _vars_in(e):
    return {n['n'] for n in F.walk(e) if n['k'] == 'DeclRefExpr' and n.get('dk') in ('local', 'param', 'global', 'slocal')}


def _assigned_vars(stmt):
    out = set()
    for n in F.walk(stmt):
        if n['k'] in ('BinaryOperator', 'CompoundAssignOperator') and (n['op'] == '=' or n['k'] == 'CompoundAssignOperator'):
            l = F.strip(n['c'][0])
            if l['k'] == 'DeclRefExpr':
                out.add(l['n'])
        elif n['k'] == 'UnaryOperator' and n['op'] in ('++', '--'):
            l = F.strip(n['c'][0])
            if l['k'] == 'DeclRefExpr':
                out.add(l['n'])
        elif n['k'] == 'UnaryOperator' and n['op'] == '&':
            l = F.strip(n['c'][0])
            if l['k'] == 'DeclRefExpr':
                out.add(l['n'])  # may be written through the pointer
    return out


PURE_LIBC = {'strlen', 'strcmp', 'strncmp', 'memcmp', 'strchr', 'isdigit', 'isalpha', 'isalnum', 'isspace', 'abs'}


class Purity:
    """a function is pure when it stores only to its own locals and calls only pure functions"""

    def __init__(self, tu):
        self.tu = tu
        self.memo = {}

    def pure(self, name):
        if name in self.memo:
            return self.memo[name]
        if name in PURE_LIBC:
            return True
        f = self.tu.funcs.get(name)
        if f is None:
            self.memo[name] = False
            return False
        self.memo[name] = False  # recursion guard
        ok = True
        for n in f.walk():
            k = n['k']
            if k in ('BinaryOperator', 'CompoundAssignOperator') and (n['op'] == '=' or k == 'CompoundAssignOperator'):
                l = F.strip(n['c'][0])
                if not (l['k'] == 'DeclRefExpr' and l.get('dk') in ('local', 'param')):
                    ok = False
                    break
            elif k == 'UnaryOperator' and n['op'] in ('++', '--'):
                l = F.strip(n['c'][0])
                if not (l['k'] == 'DeclRefExpr' and l.get('dk') in ('local', 'param')):
                    ok = False
                    break
            elif k == 'CallExpr':
                c = n.get('callee')
                if c is None or not self.pure(c):
                    ok = False
                    break
            elif k in ('GCCAsmStmt',):
                ok = False
                break
        self.memo[name] = ok
        return ok

    def fields_read(self, name):
        f = self.tu.funcs.get(name)
        if f is None:
            return set()
        return {n['n'] for n in f.walk() if n['k'] == 'MemberExpr'}


def _stored_fields(stmts):
    out = set()
    for st in stmts:
        if st is None:
            continue
        for n in F.walk(st):
            tgt = None
            if n['k'] in ('BinaryOperator', 'CompoundAssignOperator') and (n['op'] == '=' or n['k'] == 'CompoundAssignOperator'):
                tgt = F.strip(n['c'][0])
            elif n['k'] == 'UnaryOperator' and n['op'] in ('++', '--'):
                tgt = F.strip(n['c'][0])
            while tgt is not None and tgt['k'] in ('MemberExpr', 'ArraySubscriptExpr'):
                if tgt['k'] == 'MemberExpr':
                    out.add(tgt['n'])
                tgt = F.strip(tgt['c'][0])
    return out


def rf20(run, units, functions=None):
    """loop progress: in  for (…; cond(V); V = E)  the step expression must depend on V or on something the loop changes;
    otherwise V is constant after the first step and the loop cannot terminate through its condition"""
    rule = 'RF20'
    run.rule(rule, 'every for-loop whose step assigns the variable tested by its condition computes the new value from that '
                   'variable or from state the loop body changes (otherwise the traversal never advances: non-termination)')
    n = 0
    purity = {}
    for u in units:
        tu = run.tu(u)
        for f in tu.func_list:
            if functions is not None and f.name not in functions:
                continue
            for s in f.walk():
                if s['k'] != 'ForStmt':
                    continue
                init, cond, inc, body = s['c']
                if cond is None or inc is None:
                    continue
                cvars = _vars_in(cond)
                for part in _split_comma(inc):
                    if part['k'] != 'BinaryOperator' or part['op'] != '=':
                        continue
                    l = F.strip(part['c'][0])
                    if l['k'] != 'DeclRefExpr' or l['n'] not in cvars:
                        continue
                    V = l['n']
                    rhs = part['c'][1]
                    rv = _vars_in(rhs)
                    others = [p2 for p2 in _split_comma(inc) if p2 is not part]
                    changed = set()
                    for st in [body, cond] + others:
                        if st is not None:
                            changed |= _assigned_vars(st)
                    stored = _stored_fields([body, cond] + others)
                    pur = purity.setdefault(tu.unit, Purity(tu))
                    impure_call = False
                    fields = {x['n'] for x in F.walk(rhs) if x['k'] == 'MemberExpr'}
                    for x in F.walk(rhs):
                        if x['k'] == 'CallExpr':
                            c = x.get('callee')
                            if c is None or not pur.pure(c):
                                impure_call = True
                            else:
                                fields |= pur.fields_read(c)
                    ok = V in rv or bool(rv & changed) or impure_call or (V in changed) or bool(fields & stored)
                    n += 1
                    run.ob(rule, (tu.unit, f.name, s['l'], V), ok,
                           {'site': '%s:%d %s' % (f.relfile(), s['l'], f.name), 'loop variable': V, 'step': F.src(part),
                            'verdict': 'advances' if ok else 'STEP IS LOOP-INVARIANT'})
                    if not ok:
                        run.violation(rule, f, 'for-loop step %s' % F.src(part),
                                      'the loop tests %s but its step %s does not depend on %s nor on anything the loop changes: '
                                      'after the first step the variable is constant, so the traversal never advances' %
                                      (V, F.src(part), V), line=s['l'])
    return n


# ---------------------------------------------------------------------------------------------
# must-pass-through helpers
# ---------------------------------------------------------------------------------------------

def blocks_with(cfg, pred):
    """ids of blocks that evaluate a node satisfying pred"""
    out = set()
    for B in cfg.blocks.values():
        for e in B.elems:
            if any(pred(x) for x in cfg.local_walk(e)):
                out.add(B.id)
                break
    return out


def reachable_avoiding(cfg, target_blocks, avoid_blocks):
    """target blocks reachable from the entry along paths that enter no avoid block (the target itself may be an avoid
    block only if the match comes after … conservatively: a target that is itself an avoid block counts as passing)"""
    seen = cfg.reachable_from(cfg.entry, avoid=lambda b: b in avoid_blocks)
    return {t for t in target_blocks if t in seen}


def return_blocks(f, want=lambda ret: True):
    cfg = f.cfg
    res = {}
    for B in cfg.blocks.values():
        for e in B.elems:
            if e['k'] == 'ReturnStmt' and want(e):
                res[B.id] = e
    return res


def rf16h(run):
    """register look-ups consult the declared-register tables"""
    rule = 'RF16h'
    run.rule(rule, 'find_rd_by_reg / find_rd_by_name: every path that returns a register descriptor passes the membership test in the '
                   'function\'s declared-register hash table (HTAB_FIND), and the returned slot is the one the table reported')
    tu = run.tu('mir')
    inst = 0
    for fname, tab in (('find_rd_by_reg', 'reg2rdn_tab'), ('find_rd_by_name', 'name2rdn_tab')):
        f = tu.func(fname)
        cfg = f.cfg
        run.functions_analysed.add(('mir', fname))

        def is_lookup(x, tab=tab):
            if x['k'] != 'CallExpr' or not (x.get('callee') or '').startswith('HTAB_'):
                return False
            args = F.call_args(x)
            if len(args) < 4:
                return False
            a0 = F.strip(args[0])
            act = F.strip(args[2])
            return a0['k'] == 'MemberExpr' and a0['n'] == tab and act['k'] == 'DeclRefExpr' and act['n'] == 'HTAB_FIND'
        lookups = [x for x in f.walk() if is_lookup(x)]
        if not lookups:
            run.ob(rule, (fname, 'lookup'), False)
            run.violation(rule, f, 'lookup in %s' % tab, '%s no longer looks the register up in %s' % (fname, tab), line=f.line)
            continue
        # the variable that receives the found index
        outvars = set()
        for c in lookups:
            a = F.strip(F.call_args(c)[3])
            if a['k'] == 'UnaryOperator' and a['op'] == '&':
                v = F.strip(a['c'][0])
                if v['k'] == 'DeclRefExpr':
                    outvars.add(v['n'])
        lb = blocks_with(cfg, is_lookup)
        rets = return_blocks(f, lambda r: F.kids(r) and F.const_value(F.strip(F.kids(r)[0])) != 0
                             and F.strip(F.kids(r)[0])['k'] != 'GNUNullExpr')
        for bid, ret in rets.items():
            inst += 1
            bypass = bid not in lb and bool(reachable_avoiding(cfg, {bid}, lb))
            rv = F.kids(ret)[0]
            idx_ok = any(x['k'] == 'DeclRefExpr' and x['n'] in outvars for x in F.walk(rv))
            ok = (not bypass) and idx_ok
            run.ob(rule, (fname, ret['l']), ok, {'function': fname, 'return': F.src(ret), 'table': tab,
                                                'dominated by HTAB_FIND': not bypass, 'uses found index': idx_ok})
            if bypass:
                run.violation(rule, f, 'return %s' % F.src(rv),
                              '%s returns descriptor %s on a path that never asks %s whether the register is declared' %
                              (fname, F.src(rv), tab), line=ret['l'])
            elif not idx_ok:
                run.violation(rule, f, 'return %s' % F.src(rv),
                              '%s returns %s, which is not the slot reported by the look-up in %s' % (fname, F.src(rv), tab),
                              line=ret['l'])
    return inst


# ---------------------------------------------------------------------------------------------
# RF18 flag-producer preservation
# ---------------------------------------------------------------------------------------------
DELETERS = {'MIR_remove_insn': 2, 'gen_delete_insn': 1, 'ssa_delete_insn': 1, 'remove_insn_ssa_edges': None}


def rf18(run, units=('mir', 'gen')):
    rule = 'RF18'
    run.rule(rule, 'wherever an instruction is removed after its opcode has been narrowed to a set by the code\'s own tests, that set '
                   'contains no overflow-flag producer (MIR_overflow_insn_code_p): a removed producer leaves a following BO/BNO/UBO/UBNO '
                   'reading a stale flag')
    n = 0
    for u in units:
        tu = run.tu(u)
        preds = EF.Predicates(tu)
        uni = frozenset(v for nm, v in tu.enum('MIR_insn_code_t'))
        ovf = preds.true_set('MIR_overflow_insn_code_p', uni)
        if not ovf:
            raise F.AnalysisBroken('MIR_overflow_insn_code_p not evaluable in unit %s' % u)
        names = {}
        for nm, v in tu.enum('MIR_insn_code_t'):
            names.setdefault(v, nm)
        for f in tu.func_list:
            sites = [x for x in f.walk() if x['k'] == 'CallExpr' and x.get('callee') in DELETERS and DELETERS[x['callee']] is not None]
            if not sites:
                continue
            try:
                ef = EF.EnumFlow(tu, f, preds)
            except F.AnalysisBroken as ex:
                run.analysis_broken(rule, str(ex))
                continue
            run.functions_analysed.add((u, f.name))
            byid = {s['i']: s for s in sites}
            for bid in ef.cfg.blocks:
                for e, st, alias in ef.states_at_elems(bid):
                    if e['i'] not in byid:
                        continue
                    call = byid.pop(e['i'])
                    arg = F.strip(F.call_args(call)[DELETERS[call['callee']]])
                    key = F.src(arg) + '->code'
                    S = ef.lookup(st, alias, key)
                    n += 1
                    ident = (u, f.name, call['l'])
                    # only an explicitly enumerated opcode list counts (a large remainder set left by exclusions such as
                    # !MIR_call_code_p says nothing about what the author intended to delete)
                    if S is None or S >= uni or len(S) > 40:
                        run.ob(rule, ident, True)
                        continue
                    bad = S & ovf
                    run.ob(rule, ident, not bad, {'site': '%s:%d %s' % (f.relfile(), call['l'], f.name), 'removed': F.src(call)[:60],
                                                  'opcode set': sorted(names[v] for v in S)[:12], 'overflow producers in it': sorted(names[v] for v in bad)})
                    if bad:
                        run.violation(rule, f, 'remove %s with code in {%s}' % (F.src(arg), ','.join(sorted(names[v] for v in bad))),
                                      '%s removes %s although its opcode may be %s, an overflow-flag producer: a following overflow '
                                      'branch would test a flag that was never computed' % (f.name, F.src(arg), '/'.join(sorted(names[v] for v in bad))),
                                      line=call['l'])
    return n


# ---------------------------------------------------------------------------------------------
# RF30 single-return invariant of the generator
# ---------------------------------------------------------------------------------------------

def rf30(run):
    """the prologue/epilogue generator attaches the epilogue to one return instruction; the basic-block cloning pass is the one
    place that copies instructions wholesale and must therefore never clone a block that ends in a return"""
    rule = 'RF30'
    run.rule(rule, 'generator: clone_bbs definitely skips destination blocks whose last instruction is MIR_RET or MIR_JRET (evaluated over '
                   'all opcodes), because target_make_prolog_epilog restores the callee-saved registers and the stack pointer before one '
                   'return instruction only; it also skips blocks ending in MIR_SWITCH or MIR_JMPI, whose successors the edge '
                   'reconstruction after the copy (jmp / fall-through / conditional branch) cannot express')
    gen = run.tu('gen')
    f = gen.func('clone_bbs')
    run.functions_analysed.add(('gen', f.name))
    preds = EF.Predicates(gen)
    codes = dict(gen.enum('MIR_insn_code_t'))
    copies = [x for x in f.walk() if x['k'] == 'CallExpr' and x.get('callee') == 'MIR_copy_insn']
    if not copies:
        raise F.AnalysisBroken('clone_bbs: MIR_copy_insn not found')
    # skip conditions: if (…) continue;  preceding the copy, inside the same loop
    skips = []
    for n in f.walk():
        if n['k'] == 'IfStmt' and n['c'][1] is not None and F.strip(n['c'][1])['k'] == 'ContinueStmt' and n['l'] < copies[0]['l']:
            keys = {F.src(x) for x in F.walk(n['c'][0]) if x['k'] == 'MemberExpr' and x['n'] == 'code'}
            if keys:
                skips.append((n, sorted(keys)))
    if not skips:
        raise F.AnalysisBroken('clone_bbs: no opcode-dependent skip before the copy')
    for name in ('MIR_RET', 'MIR_JRET', 'MIR_SWITCH', 'MIR_JMPI'):
        skipped = False
        for n, keys in skips:
            env = {k: codes[name] for k in keys}
            v = preds.eval(n['c'][0], env, frozenset())
            if v:
                skipped = True
        run.ob(rule, ('skip', name), skipped, {'destination block ends in': name, 'definitely skipped': skipped,
                                              'skip conditions': [F.src(n['c'][0])[:100] for n, k in skips]})
        if not skipped:
            why = ('the function then has two returns, but the epilogue (restoring callee-saved registers and the stack pointer) is '
                   'attached to one return only') if name in ('MIR_RET', 'MIR_JRET') else \
                  ('the edges of the clone are rebuilt for three shapes only (jmp, fall-through, conditional branch with its label in '
                   'operand 0): the clone of a block ending in %s gets a fall-through edge instead of its real successors and the '
                   'optimiser propagates values along a CFG that lacks them' % name)
            run.violation(rule, f, 'cloning of a block ending in %s' % name,
                          'clone_bbs can clone a block whose last instruction is %s: %s' % (name, why), line=skips[0][0]['l'])
    # the epilogue site itself: target_make_prolog_epilog looks for the (single) return
    tm = gen.func('target_make_prolog_epilog')
    ok = any(x['k'] == 'BinaryOperator' and x['op'] in ('==', '!=') and 'MIR_RET' in F.src(x) for x in tm.walk())
    run.ob(rule, ('epilogue-anchor',), ok)
    if not ok:
        run.analysis_broken(rule, 'target_make_prolog_epilog: search for the return instruction not recognised')


# ---------------------------------------------------------------------------------------------
# RF33: control-flow edges of indirect jumps cover every address-taken label (build_func_cfg)
# ---------------------------------------------------------------------------------------------

def _for_parts(x):
    c = x['c']
    return (c[0], c[1], c[2], c[3]) if len(c) >= 4 else (None, None, None, None)


def rf33(run):
    rule = 'RF33'
    run.rule(rule, 'build_func_cfg: every LADDR label and both labels of every lref item are collected as address-taken; every JMPI is '
                   'collected; the loops that connect each JMPI block to each address-taken label and that mark those labels reachable '
                   'run over the whole index range [0, length) of the collected vectors, and an iteration skips create_edge only for a '
                   'label equal to the previously connected one')
    gen = run.tu('gen')
    f = gen.func('build_func_cfg')
    run.functions_analysed.add(('gen', f.name))
    cfg = f.cfg
    from rf_proto import dominating_conditions
    LAB, JMP = 'gen_ctx->temp_insns2', 'gen_ctx->temp_insns'
    pushes = {LAB: [], JMP: []}
    for x in f.walk():
        if x['k'] == 'CallExpr' and (x.get('callee') or '').startswith('VARR_') and x['callee'].endswith('push'):
            a = [F.src(F.strip(z)) for z in F.call_args(x)]
            if a and a[0] in pushes:
                pushes[a[0]].append((a[1], x))
    # (a) collection of address-taken labels
    got = {e for e, _ in pushes[LAB]}
    for want, why in (('insn->ops[1].u.label', 'the label operand of LADDR'), ('lref->label', 'the label of an lref data item'),
                      ('lref->label2', 'the base label of an lref data item')):
        ok = want in got
        run.ob(rule, ('collect', want), ok, {'pushed to the address-taken vector': sorted(got), 'required': want})
        if not ok:
            run.violation(rule, f, 'collection of %s' % want, 'build_func_cfg does not record %s (%s) as a possible target of indirect jumps'
                          % (want, why), line=f.line)
    for e, x in pushes[LAB] + pushes[JMP]:
        b = cfg.block_of(x)
        conds = dominating_conditions(cfg, b, selective=True) if b is not None else None
        if e == 'insn->ops[1].u.label':
            exp = [('(insn->code == MIR_LADDR)', True)]
        elif e == 'insn' and x in [y for _, y in pushes[JMP]]:
            exp = [('(insn->code == MIR_LADDR)', False), ('(insn->code == MIR_JMPI)', True)]
        elif e == 'lref->label2':
            exp = [('(lref->label2 != 0)', True)]
        else:
            exp = []
        ok = conds is not None and sorted(conds) == sorted(exp)
        run.ob(rule, ('collect-cond', e, x['l']), ok, {'push': F.src(x)[:70], 'under': conds, 'expected': exp})
        if not ok:
            run.violation(rule, f, 'condition of %s' % F.src(x)[:50], 'the collection %s happens under %s; it must happen exactly under %s, '
                          'otherwise some indirect-jump targets or sources get no control-flow edge' % (F.src(x)[:50], conds, exp), line=x['l'])
    if not pushes[JMP]:
        raise F.AnalysisBroken('build_func_cfg: JMPI collection not found')
    # (b) full-range loops
    loops = []
    for x in f.walk():
        if x['k'] != 'ForStmt':
            continue
        init, cond, inc, body = _for_parts(x)
        if cond is None:
            continue
        ct = F.src(F.strip(cond))
        vec = LAB if ('length(%s)' % LAB) in ct else (JMP if ('length(%s)' % JMP) in ct else None)
        if vec is None:
            continue
        loops.append((x, vec))
        c = F.strip(cond)
        iv = F.src(F.strip(c['c'][0])) if c['k'] == 'BinaryOperator' else None
        i0 = F.strip(init) if init is not None else None
        init_ok = i0 is not None and i0['k'] == 'BinaryOperator' and i0['op'] == '=' and F.src(F.strip(i0['c'][0])) == iv and F.const_value(i0['c'][1]) == 0
        if i0 is not None and i0['k'] == 'DeclStmt':
            init_ok = len(i0['decls']) == 1 and i0['decls'][0]['n'] == iv and i0['decls'][0].get('init') is not None and F.const_value(i0['decls'][0]['init']) == 0
        cond_ok = c['k'] == 'BinaryOperator' and c['op'] == '<' and F.src(F.strip(c['c'][1])).endswith('length(%s)' % vec)
        inc_ok = inc is not None and F.strip(inc)['k'] == 'UnaryOperator' and F.strip(inc)['op'] == '++' and F.src(F.strip(F.strip(inc)['c'][0])) == iv
        body_assigns = [y for y in F.walk(body) if y['k'] in ('BinaryOperator', 'CompoundAssignOperator', 'UnaryOperator')
                        and y.get('op') in ('=', '+=', '-=', '++', '--') and F.src(F.strip(y['c'][0])) == iv]
        ok = init_ok and cond_ok and inc_ok and not body_assigns
        run.ob(rule, ('full-range', x['l']), ok, {'loop': 'for (%s; %s; %s)' % (F.src(init)[:30] if init else '', ct[:60], F.src(inc)[:10] if inc else ''),
                                                 'vector': vec, 'starts at 0': init_ok, 'bound is the length': cond_ok, 'unit step': inc_ok and not body_assigns})
        if not ok:
            run.violation(rule, f, 'loop over %s at line %d' % (vec, x['l']),
                          'the loop over the collected %s does not visit the whole range [0, length): %s'
                          % ('address-taken labels' if vec == LAB else 'indirect jumps',
                             'it starts at %s' % (F.src(init)[:30] if init else '?') if not init_ok else 'bound or step differ from i < length; i++'), line=x['l'])
    if len(loops) < 3:
        raise F.AnalysisBroken('build_func_cfg: expected the JMPI loop, the label loop and the reachable_p loop, found %d' % len(loops))
    # (c) skipping create_edge only for a repeated label
    inner = [x for x, vec in loops if vec == LAB and any(y['k'] == 'CallExpr' and y.get('callee') == 'create_edge' for y in F.walk(x))]
    if len(inner) != 1:
        raise F.AnalysisBroken('build_func_cfg: inner edge-creating loop over the label vector not found')
    body = _for_parts(inner[0])[3]
    ceb = blocks_with(cfg, lambda z: z['k'] == 'CallExpr' and z.get('callee') == 'create_edge' and any(z is w for w in F.walk(body)))
    incb = cfg.block_of(_for_parts(inner[0])[2])
    first = None
    for st in F.kids(body):
        first = cfg.block_of(st) if first is None else first
    if incb is None or first is None or not ceb:
        raise F.AnalysisBroken('build_func_cfg: blocks of the inner loop not located')
    # edges into the step that bypass create_edge
    skipping = []
    seen = cfg.reachable_from(first, avoid=lambda q: q in ceb or q == incb)
    for b in seen:
        if incb in cfg.live_succs(b):
            skipping.append(b)
    asg = [F.src(F.strip(y['c'][0])) for y in F.walk(body) if y['k'] == 'BinaryOperator' and y['op'] == '=' and F.src(F.strip(y['c'][1])) == 'insn2']
    for b in skipping:
        conds = dominating_conditions(cfg, b)
        B = cfg.blocks[b]
        if B.cond is not None and len(B.succs) == 2:
            conds = conds + [(F.src(F.strip(B.cond)), B.succs[0] == incb)]
        dup = any(t and any(c.replace(' ', '') == '(insn2==%s)' % v for v in asg) for c, t in conds)
        run.ob(rule, ('skip', b), dup, {'iteration can skip create_edge under': conds, 'previous-label variable': asg})
        if not dup:
            run.violation(rule, f, 'skipped edge', 'an iteration of the JMPI-to-label loop can skip create_edge under %s, which is not the '
                          '"same label as the previous one" test' % conds, line=inner[0]['l'])
    run.min_instances(rule, 8)


# ---------------------------------------------------------------------------------------------
# RF32: passes that delete, merge or move instructions protect the opcodes with effects beyond their result registers
# ---------------------------------------------------------------------------------------------

def rf32(run):
    rule = 'RF32'
    run.rule(rule, 'over the opcode domain: (a) the two dead-code deciders (ssa_dead_insn_p, the deletion test of '
                   'dead_code_elimination) never classify a call-family instruction, VA_ARG or BSTART as removable although their '
                   'result registers are dead; (b) fixed_place_insn_p (GVN redundancy elimination) holds for the call family, ALLOCA, '
                   'BSTART/BEND and VA_START/VA_ARG/VA_END; (c) loop_invariant_p rejects those and the trapping DIV/MOD family, so none is '
                   'hoisted out of a loop')
    gen = run.tu('gen')
    preds = EF.Predicates(gen)
    codes = dict(gen.enum('MIR_insn_code_t'))
    calls = ['MIR_CALL', 'MIR_INLINE', 'MIR_JCALL']
    with_out = calls + ['MIR_VA_ARG', 'MIR_BSTART']
    fixed = calls + ['MIR_ALLOCA', 'MIR_BSTART', 'MIR_BEND', 'MIR_VA_START', 'MIR_VA_ARG', 'MIR_VA_BLOCK_ARG', 'MIR_VA_END']   # VA_BLOCK_ARG: D98
    hoist = fixed + ['MIR_VA_BLOCK_ARG', 'MIR_DIV', 'MIR_DIVS', 'MIR_UDIV', 'MIR_UDIVS', 'MIR_MOD', 'MIR_MODS', 'MIR_UMOD', 'MIR_UMODS', 'MIR_RET', 'MIR_JRET']
    # overflow-flag producers stay next to the branch that reads their flags
    uni_ = frozenset(v for nm, v in gen.enum('MIR_insn_code_t'))
    ovf_ = preds.true_set('MIR_overflow_insn_code_p', uni_)
    if not ovf_:
        raise F.AnalysisBroken('MIR_overflow_insn_code_p not evaluable')
    byv_ = {}
    for nm, v in gen.enum('MIR_insn_code_t'):
        byv_.setdefault(v, nm)
    hoist = hoist + sorted(byv_[v] for v in ovf_)

    def first_false_guard(f):
        for st in F.kids(f.body):
            if st['k'] == 'IfStmt':
                th = st['c'][1]
                rets = [x for x in F.walk(th) if x['k'] == 'ReturnStmt']
                if rets and all(F.kids(r_) and F.const_value(F.kids(r_)[0]) == 0 for r_ in rets):
                    return st
        return None

    def judge(site, f, expr, env_extra, protected, want, what):
        for c in protected:
            env = {'insn->code': codes[c], 'code': codes[c]}
            env.update(env_extra)
            v = preds.eval(expr, env, frozenset())
            ok = v is not None and bool(v) == want
            run.ob(rule, (site, c), ok, {'site': site, 'opcode': c, 'test evaluates to': v, 'required': int(want)})
            if not ok:
                if v is None:
                    # which sub-expressions are undecided?  tests on operands cannot protect an opcode in general; an opaque call might
                    atoms = []

                    def collect(e):
                        e = F.strip(e)
                        if preds.eval(e, env, frozenset()) is not None:
                            return
                        if e['k'] == 'BinaryOperator' and e['op'] in ('&&', '||'):
                            collect(e['c'][0]); collect(e['c'][1])
                        elif e['k'] == 'UnaryOperator' and e['op'] == '!':
                            collect(e['c'][0])
                        elif preds.eval(e, env, frozenset()) is None:
                            atoms.append(e)
                    collect(expr)
                    if any(y['k'] == 'CallExpr' for a_ in atoms for y in F.walk(a_)):
                        raise F.AnalysisBroken('%s: the test for %s depends on %s which the evaluator cannot decide'
                                               % (site, c, [F.src(a_)[:40] for a_ in atoms]))
                    run.violation(rule, f, '%s for %s' % (site, c), '%s: %s is protected only when %s; %s'
                                  % (f.name, c, ' / '.join(F.src(a_)[:50] for a_ in atoms), what), line=expr['l'])
                    continue
                run.violation(rule, f, '%s for %s' % (site, c), '%s: %s %s' % (f.name, c, what), line=expr['l'])
    # (a) ssa_dead_insn_p
    f = gen.func('ssa_dead_insn_p')
    run.functions_analysed.add(('gen', f.name))
    g = first_false_guard(f)
    if g is None:
        raise F.AnalysisBroken('ssa_dead_insn_p: the leading `if (…) return FALSE` guard was not found')
    judge('ssa_dead_insn_p guard', f, g['c'][0], {}, with_out, True,
          'is not excluded by the leading guard: with dead result registers it is deleted although it has another effect')
    # (a) dead_code_elimination
    f = gen.func('dead_code_elimination')
    run.functions_analysed.add(('gen', f.name))
    site = None
    for x in f.walk():
        if x['k'] == 'IfStmt' and 'dead_p' in F.src(x['c'][0]) and any(y['k'] == 'CallExpr' and y.get('callee') in ('gen_delete_insn', 'ssa_delete_insn') for y in F.walk(x['c'][1])):
            site = x
    if site is None:
        raise F.AnalysisBroken('dead_code_elimination: the deletion test on dead_p was not found')
    judge('dead_code_elimination deletion test', f, site['c'][0], {'dead_p': 1}, with_out, False,
          'can be deleted when its result registers are dead although it has another effect')
    # (b) fixed_place_insn_p
    f = gen.func('fixed_place_insn_p')
    run.functions_analysed.add(('gen', f.name))
    body = F.kids(f.body)
    if len(body) != 1 or body[0]['k'] != 'ReturnStmt':
        raise F.AnalysisBroken('fixed_place_insn_p is no longer a single return expression')
    judge('fixed_place_insn_p', f, F.kids(body[0])[0], {}, fixed, True,
          'is not a fixed-place instruction: GVN may replace it by an earlier occurrence with the same operands')
    users = [h.name for h in gen.func_list if h.body is not None and any(y['k'] == 'CallExpr' and y.get('callee') in ('gvn_insn_p', 'fixed_place_insn_p') for y in h.walk())]
    run.ob(rule, ('fixed-place users',), len(users) >= 2, {'callers of gvn_insn_p / fixed_place_insn_p': sorted(users)})
    if len(users) < 2:
        raise F.AnalysisBroken('gvn_insn_p / fixed_place_insn_p have %d callers' % len(users))
    # (c) loop_invariant_p
    f = gen.func('loop_invariant_p')
    run.functions_analysed.add(('gen', f.name))
    g = first_false_guard(f)
    if g is None:
        raise F.AnalysisBroken('loop_invariant_p: the leading `if (…) return FALSE` guard was not found')
    judge('loop_invariant_p guard', f, g['c'][0], {}, hoist, True,
          'is not excluded from loop-invariant code motion: it would be executed a different number of times (or trap on a path that did not execute it)')
    # (d) combine_substitute: the definition moved down to its single use is not a call, ALLOCA or BSTART (sp is an implicit operand)
    f = gen.func('combine_substitute')
    run.functions_analysed.add(('gen', f.name))
    mv = [x for x in f.walk() if x['k'] == 'CallExpr' and x.get('callee') == 'gen_move_insn_before']
    if len(mv) != 1:
        raise F.AnalysisBroken('combine_substitute: the move of the defining instruction was not found')
    guards = [x for x in f.walk() if x['k'] == 'IfStmt' and x['l'] < mv[0]['l'] and 'def_insn->code' in F.src(x['c'][0])
              and any(y['k'] == 'ReturnStmt' for y in F.walk(x['c'][1]))]
    if not guards:
        raise F.AnalysisBroken('combine_substitute: no opcode guard in front of the move')
    for c in calls + ['MIR_ALLOCA', 'MIR_BSTART']:
        env = {'def_insn->code': codes[c], 'def_insn': 1}
        vals = []
        for gq in guards:
            # `(def_insn = f (…)) == NULL || opcode test`: the assignment is not NULL here
            e = gq['c'][0]
            parts = []

            def ors(e_):
                e_ = F.strip(e_)
                if e_['k'] == 'BinaryOperator' and e_['op'] == '||':
                    ors(e_['c'][0]); ors(e_['c'][1])
                else:
                    parts.append(e_)
            ors(e)
            vals.append(any(preds.eval(p_, env, frozenset()) for p_ in parts if 'def_insn->code' in F.src(p_)))
        ok = any(vals)
        run.ob(rule, ('combine_substitute move', c), ok, {'site': 'combine_substitute', 'opcode': c, 'excluded from the move': ok})
        if not ok:
            run.violation(rule, f, 'combiner moves %s' % c, 'combine_substitute can move a defining %s down to the use of its result: the '
                          'instruction changes or reads sp, and between the two places the stack adjustment and the stores of outgoing '
                          'stack arguments of a call can lie (the callee then reads garbage arguments)' % c, line=mv[0]['l'])
    run.min_instances(rule, 30)


# ---------------------------------------------------------------------------------------------
# RF36: every backward liveness scan gives a call the same effect
# ---------------------------------------------------------------------------------------------

def rf36(run):
    rule = 'RF36'
    run.rule(rule, 'sibling agreement of the backward liveness scans of mir-gen.c (functions that iterate both the output and the input '
                   'variables of instructions and touch the call register sets): in each of them, under MIR_call_code_p (insn->code), '
                   'the call-clobbered set call_used_hard_regs[MIR_T_UNDEF] is killed and the hard registers carrying the call\'s '
                   'arguments (call_hard_reg_args) are made live')
    gen = run.tu('gen')
    from rf_proto import dominating_conditions
    scans = []
    for f in gen.func_list:
        if f.body is None:
            continue
        it = set()
        members = {}
        for x in f.walk():
            if x['k'] == 'CallExpr':
                c = x.get('callee') or ''
                if 'output_insn_var_iterator_next' in c:
                    it.add('OUT')
                if 'input_insn_var_iterator_next' in c:
                    it.add('IN')
            if x['k'] == 'MemberExpr' and x['n'] in ('call_used_hard_regs', 'call_hard_reg_args'):
                members.setdefault(x['n'], []).append(x)
        if it == {'IN', 'OUT'} and members:
            scans.append((f, members))
    if len(scans) < 4:
        raise F.AnalysisBroken('only %d liveness scans found in mir-gen.c (4 confirmed by hand)' % len(scans))
    for f, members in scans:
        run.functions_analysed.add(('gen', f.name))
        cfg = f.cfg
        for m, role in (('call_used_hard_regs', 'kills the call-clobbered registers'), ('call_hard_reg_args', 'makes the argument registers live')):
            sites = members.get(m, [])
            good = []
            for x in sites:
                b = cfg.block_of(x)
                if b is None:
                    continue
                conds = dominating_conditions(cfg, b)
                if any('MIR_call_code_p(insn->code)' in c.replace(' (', '(') and t for c, t in conds):
                    good.append(x)
            ok = bool(good)
            run.ob(rule, (f.name, m), ok, {'scan': f.name, 'set': m, 'uses under the call test': len(good), 'uses': len(sites)})
            if not ok:
                run.violation(rule, f, '%s in %s' % (m, f.name),
                              '%s is a backward liveness scan like %s but nothing in it %s under MIR_call_code_p (insn->code): values kept '
                              'in such registers across a call are treated wrongly by this pass'
                              % (f.name, ', '.join(g.name for g, _ in scans if g is not f), role), line=f.line)
    run.min_instances(rule, 8)


# ---------------------------------------------------------------------------------------------
# RF43: a reused spill location lies completely inside the slots that exist
# ---------------------------------------------------------------------------------------------

def rf43(run):
    import re
    rule = 'RF43'
    run.rule(rule, 'get_stack_loc: the statement that selects an existing stack location for reuse (best_loc = loc) is reached only when '
                   '(a) the last slot the value occupies, target_nth_loc (loc, type, slots_num - 1), has been compared against the number '
                   'of allocated slots (func_stack_slots_num + MAX_HARD_REG) and lies inside, and (b) the scan of all slots_num slots '
                   'against conflict_locs ran to completion; otherwise a multi-slot value (long double) takes a slot that does not exist '
                   'yet and the next new slot overlaps it')
    gen = run.tu('gen')
    f = gen.func('get_stack_loc')
    run.functions_analysed.add(('gen', f.name))
    from rf_proto import dominating_conditions
    cfg = f.cfg
    sel = [x for x in f.walk() if x['k'] == 'BinaryOperator' and x['op'] == '=' and F.src(F.strip(x['c'][0])) == 'best_loc'
           and F.src(F.strip(x['c'][1])) == 'loc']
    if not sel:
        raise F.AnalysisBroken('get_stack_loc: `best_loc = loc` not found')
    # names that stand for the allocated-slot bound
    bound_names = {'func_stack_slots_num'}
    for x in f.walk():
        if x['k'] == 'DeclStmt':
            for d in x['decls']:
                if d.get('init') is not None and 'func_stack_slots_num' in F.src(d['init']):
                    bound_names.add(d['n'])
    for x in sel:
        b = cfg.block_of(x)
        conds = dominating_conditions(cfg, b)
        inside = False
        for c, t in conds:
            c2 = c.replace(' ', '')
            if 'target_nth_loc(loc,type,(slots_num-1))' not in c2 and 'target_nth_loc(loc,type,slots_num-1)' not in c2:
                continue
            if not any(bn in c for bn in bound_names):
                continue
            m = re.search(r'target_nth_loc\(loc,type,\(?slots_num-1\)?\)\)*(<=|>=|<|>)', c2)
            if not m:
                continue
            op = m.group(1)
            if (op == '>' and not t) or (op in ('<=', '<') and t):
                inside = True
        scanned = any(c.replace(' ', '') == '(k<slots_num)' and not t for c, t in conds) and any(
            y['k'] == 'CallExpr' and y.get('callee') == 'bitmap_bit_p' and 'conflict_locs' in F.src(y) and 'target_nth_loc' in F.src(F.strip(F.call_args(y)[1]))
            or (y['k'] == 'CallExpr' and y.get('callee') == 'bitmap_bit_p' and 'conflict_locs' in F.src(y)) for y in f.walk())
        ok = inside and scanned
        run.ob(rule, ('reuse', x['l']), ok, {'selection at line': x['l'], 'last slot bounded by the allocated slots': inside,
                                            'all slots checked against conflicts': scanned, 'dominating tests': [c for c, t in conds][:6]})
        if not ok:
            run.violation(rule, f, 'reuse of an existing stack location',
                          'get_stack_loc selects loc for reuse %s: a two-slot value can be given the last existing slot plus one that is not '
                          'allocated yet; the next get_new_stack_slot hands that slot to another live value'
                          % ('without testing that its last slot target_nth_loc (loc, type, slots_num - 1) is an allocated one' if not inside
                             else 'without a completed conflict scan of all its slots'), line=x['l'])
    run.min_instances(rule, 1)


# ---------------------------------------------------------------------------------------------
# RF44: leaving SSA — the phi result is renamed to the copy register only if no block-ending branch reads it
# ---------------------------------------------------------------------------------------------

def rf44(run):
    rule = 'RF44'
    run.rule(rule, 'make_conventional_ssa: the moves that feed a phi are placed before the branch that ends a predecessor block; the '
                   'shortcut that renames the phi result to the register written by those moves (instead of adding `r = r%` after the '
                   'phi) is therefore guarded by a scan of the uses that stops at a use in another block *and* at a use by a branch '
                   'instruction — in a single-block loop the branch would otherwise read the next iteration\'s value (lost copy)')
    gen = run.tu('gen')
    f = gen.func('make_conventional_ssa')
    run.functions_analysed.add(('gen', f.name))
    # (1) the copies are inserted before a block-ending branch
    before = [x for x in f.walk() if x['k'] == 'CallExpr' and x.get('callee') == 'gen_add_insn_before'
              and 'tail->insn' in F.src(F.strip(F.call_args(x)[1]))]
    if not before:
        raise F.AnalysisBroken('make_conventional_ssa: the insertion of phi moves before the predecessor\'s branch was not found')
    # (2) the rename shortcut and its guard
    ren = [x for x in f.walk() if x['k'] == 'BinaryOperator' and x['op'] == '=' and F.src(F.strip(x['c'][0])) == 'insn->ops[0].u.var'
           and F.src(F.strip(x['c'][1])) == 'dest_var']
    if len(ren) != 1:
        raise F.AnalysisBroken('make_conventional_ssa: the rename `insn->ops[0].u.var = dest_var` was found %d times' % len(ren))
    guard_if = None
    for a in f.ancestors(ren[0]):
        if a['k'] == 'IfStmt':
            guard_if = a
            break
    if guard_if is None or 'se' not in F.src(guard_if['c'][0]):
        raise F.AnalysisBroken('make_conventional_ssa: the rename is not guarded by the result of a use scan')
    # the scan: the for-loop over se preceding the if, whose body breaks on a condition
    scan = None
    for x in f.walk():
        if x['k'] == 'ForStmt' and x['l'] <= guard_if['l'] and 'next_use' in F.src(x['c'][2] if len(x['c']) > 2 and x['c'][2] is not None else x) \
                and any(y['k'] == 'BreakStmt' for y in F.walk(x)):
            if scan is None or x['l'] > scan['l']:
                scan = x
    if scan is None:
        raise F.AnalysisBroken('make_conventional_ssa: the scan of the uses of the phi result was not found')
    brk = None
    for y in F.walk(scan):
        if y['k'] == 'IfStmt' and any(z['k'] == 'BreakStmt' for z in F.walk(y['c'][1])):
            brk = y
    cond = F.src(brk['c'][0]) if brk is not None else ''
    other_bb = 'use->bb != bb' in cond
    branch_use = 'MIR_any_branch_code_p(se->use->insn->code)' in cond.replace(' (', '(') or 'MIR_branch_code_p(se->use->insn->code)' in cond.replace(' (', '(')
    ok = other_bb and branch_use
    run.ob(rule, ('rename-guard',), ok, {'scan stops at a use in another block': other_bb, 'scan stops at a use by a branch instruction': branch_use,
                                        'moves are placed before the predecessor\'s branch': True, 'condition': cond[:120]})
    if not ok:
        run.violation(rule, f, 'rename shortcut of the phi result',
                      'make_conventional_ssa renames `r = phi (…)` to the register its predecessor moves write whenever all uses of r are in '
                      'the phi\'s block; the moves sit before the block-ending branch, so in a single-block loop a branch that uses r reads '
                      'the value of the next iteration (e.g. `while (n-- > 0) c++` counts one less)', line=ren[0]['l'])
    run.min_instances(rule, 1)


# ---------------------------------------------------------------------------------------------
# RF52: jump_opt keeps address-taken labels; RF53: the lref link step sees every lref item
# ---------------------------------------------------------------------------------------------

def rf52(run):
    rule = 'RF52'
    run.rule(rule, 'jump_opt deletes a label-only block unless the label is marked in temp_bitmap; the marking covers every way a label '
                   'is referenced: branch and switch operands, the label operand of LADDR, and both labels of every lref data item of the '
                   'function (the same sources build_func_cfg treats as address-taken, RF33)')
    gen = run.tu('gen')
    f = gen.func('jump_opt')
    run.functions_analysed.add(('gen', f.name))
    from rf_proto import dominating_conditions
    cfg = f.cfg
    sets = [x for x in f.walk() if x['k'] == 'CallExpr' and x.get('callee') == 'bitmap_set_bit_p' and 'temp_bitmap' in F.src(F.call_args(x)[0])]
    tests = [x for x in f.walk() if x['k'] == 'CallExpr' and x.get('callee') == 'bitmap_bit_p' and 'temp_bitmap' in F.src(F.call_args(x)[0])]
    if not sets or not tests:
        raise F.AnalysisBroken('jump_opt: the label-use bitmap was not found')
    srcs = [F.src(F.call_args(x)[1]) for x in sets]
    have = {
        'branch/switch operands': any('ops[i].u.label' in t for t in srcs),
        'LADDR operand': any('ops[1].u.label' in t and any('MIR_LADDR' in c for c, tr in dominating_conditions(cfg, cfg.block_of(x)) if tr)
                             for x, t in zip(sets, srcs)),
        'lref label': any('lref->label->' in t for t in srcs),
        'lref base label': any('lref->label2->' in t for t in srcs),
    }
    for kname, ok in have.items():
        run.ob(rule, (kname,), ok, {'reference kind': kname, 'marked before label-only blocks are removed': ok})
        if not ok:
            run.violation(rule, f, 'labels referenced by %s' % kname, 'jump_opt does not mark labels referenced by %s as used: a block that '
                          'consists of such a label only is removed, and the address stored by laddr / in the lref data points at deleted '
                          'code (or the generator crashes on the freed label)' % kname, line=tests[0]['l'])
    run.min_instances(rule, 4)


def rf53(run):
    rule = 'RF53'
    run.rule(rule, 'MIR_load_module decides whether link_module_lrefs must run from a test of item_type == MIR_lref_data_item; the item '
                   'tested must range over every item of the module, not over the variable that load_bss_data_section advances past '
                   'a whole data section (an lref may continue a section started by a data/bss/ref item)')
    tu = run.tu('mir')
    f = tu.func('MIR_load_module')
    run.functions_analysed.add(('mir', f.name))
    asg = [x for x in f.walk() if x['k'] == 'BinaryOperator' and x['op'] == '=' and F.src(F.strip(x['c'][0])) == 'lref_p' and F.const_value(x['c'][1]) == 1]
    calls = [x for x in f.walk() if x['k'] == 'CallExpr' and x.get('callee') == 'link_module_lrefs']
    if not calls:
        raise F.AnalysisBroken('MIR_load_module: call of link_module_lrefs not found')
    if not asg:
        # unconditional call is fine
        from rf_proto import dominating_conditions
        conds = dominating_conditions(f.cfg, f.cfg.block_of(calls[0]), selective=True)
        ok = not conds
        run.ob(rule, ('unconditional',), ok, {'link_module_lrefs called under': conds})
        if not ok:
            raise F.AnalysisBroken('MIR_load_module: link_module_lrefs is conditional but lref_p is not used')
        return
    skipping = set()
    for x in f.walk():
        if x['k'] == 'BinaryOperator' and x['op'] == '=' and F.strip(x['c'][1])['k'] == 'CallExpr' and F.strip(x['c'][1]).get('callee') == 'load_bss_data_section':
            skipping.add(F.src(F.strip(x['c'][0])))
    for a in asg:
        guard = None
        for anc in f.ancestors(a):
            if anc['k'] == 'IfStmt' and 'MIR_lref_data_item' in F.src(anc['c'][0]):
                guard = anc
                break
        if guard is None:
            raise F.AnalysisBroken('MIR_load_module: lref_p = TRUE is not guarded by an item_type test')
        var = None
        for y in F.walk(guard['c'][0]):
            if y['k'] == 'MemberExpr' and y['n'] == 'item_type':
                var = F.src(F.strip(y['c'][0]))
        ok = var is not None and var not in skipping
        run.ob(rule, ('lref_p', a['l']), ok, {'tested item variable': var, 'variables advanced over whole sections': sorted(skipping)})
        if not ok:
            run.violation(rule, f, 'detection of lref items', 'lref_p is set from `%s->item_type`, but `%s` is advanced over a whole data '
                          'section by load_bss_data_section: an lref item that continues a section started by another data item is never '
                          'seen, link_module_lrefs is skipped and the label slot is never filled' % (var, var), line=a['l'])
    run.min_instances(rule, 1)



# ---------------------------------------------------------------------------------------------
# RF54: addr elimination only for full-width stores; RF55: memory availability killed by every store of a block
# ---------------------------------------------------------------------------------------------

def rf54(run):
    from lib import miniexec as MX
    rule = 'RF54'
    run.rule(rule, 'collect_addr_uses (decides whether `addr q, p` can be eliminated by turning memory accesses through q into register '
                   'moves): over register type {i64, f, d, ld} x memory type x {load, store}, a store through the address makes the addr '
                   'non-eliminable unless it writes the whole register (a narrow store turned into an extension would replace the whole '
                   'register instead of a part of it); a load keeps the addr when it reads the register as another class (an integer load '
                   'of an FP register or the reverse would become a move / extension between register files)')
    gen = run.tu('gen')
    f = gen.func('collect_addr_uses')
    run.functions_analysed.add(('gen', f.name))
    tys = dict(gen.enum('MIR_type_t'))
    modes = dict(gen.enum('MIR_op_mode_t'))
    # the branch that handles a memory use of the address
    site = None
    for x in f.walk():
        if x['k'] == 'IfStmt' and 'MIR_OP_VAR_MEM' in F.src(x['c'][0]) and 'use_op_num' in F.src(x['c'][0]):
            site = x
    if site is None:
        raise F.AnalysisBroken('collect_addr_uses: the memory-use branch was not found')
    mtkey = None
    for y in F.walk(site['c'][1]):
        if y['k'] == 'MemberExpr' and y['n'] == 'type' and 'var_mem' in F.src(y):
            mtkey = F.src(y)
    full = {'MIR_T_I64': ('MIR_T_I64', 'MIR_T_U64', 'MIR_T_P'), 'MIR_T_F': ('MIR_T_F',), 'MIR_T_D': ('MIR_T_D',), 'MIR_T_LD': ('MIR_T_LD',)}
    mems = ['MIR_T_I8', 'MIR_T_U8', 'MIR_T_I16', 'MIR_T_U16', 'MIR_T_I32', 'MIR_T_U32', 'MIR_T_I64', 'MIR_T_U64', 'MIR_T_P', 'MIR_T_F', 'MIR_T_D', 'MIR_T_LD']
    n = 0
    first = None
    for rt, fulls in full.items():
        for mt in mems:
            for opn in (0, 1):
                env = {'res': 1, 'reg_type': tys[rt], 'se->use_op_num': opn, 'bb_mem_insns': 0}
                if mtkey is not None:
                    env[mtkey] = tys[mt]
                env['mem_type'] = tys[mt]
                mx = MX.MiniExec(gen)
                try:
                    mx.run(site['c'][1], env)
                except F.AnalysisBroken as ex:
                    raise F.AnalysisBroken('collect_addr_uses: %s' % ex)
                rejected = env.get('res') == 0
                cross = (mt in ('MIR_T_F', 'MIR_T_D', 'MIR_T_LD')) if rt == 'MIR_T_I64' else (mt != rt)
                exp = (opn == 0 and mt not in fulls) or (opn == 1 and cross)
                ok = rejected == exp
                n += 1
                run.ob(rule, (rt, mt, opn), ok, {'register type': rt, 'memory type': mt, 'access': 'store' if opn == 0 else 'load',
                                                'addr kept': rejected, 'required': exp} if (not ok or n % 11 == 0) else None)
                if not ok and first is None:
                    first = (rt, mt, opn, rejected)
    if first:
        rt, mt, opn, rejected = first
        run.violation(rule, f, '%s through the address of a %s register' % ('%s store' % mt if opn == 0 else '%s load' % mt, rt),
                      'collect_addr_uses %s an addr whose address is used by a %s %s of a %s register: %s'
                      % ('keeps' if rejected else 'lets transform_addrs eliminate', mt, 'store' if opn == 0 else 'load', rt,
                         'the store would be rewritten into an extension/move that replaces the whole register' if not rejected else
                         'the elimination is only less effective'), line=site['l'])
    run.min_instances(rule, 90)


def rf55(run):
    rule = 'RF55'
    run.rule(rule, 'memory availability (GVN): the set of stores with which mem_av_trans_func kills the values available on entry of a '
                   'block is filled by calculate_memory_availability for *every* store of the block and is not the set that '
                   'update_mem_availability prunes (the stores still available at the block end): a store overwritten later in the '
                   'block still kills what it aliases')
    gen = run.tu('gen')
    t = gen.func('mem_av_trans_func')
    c = gen.func('calculate_memory_availability')
    run.functions_analysed.update({('gen', t.name), ('gen', c.name)})
    its = [F.src(F.strip(F.call_args(x)[1])) for x in t.walk() if x['k'] == 'CallExpr' and (x.get('callee') or '').startswith('bitmap_iterator_init')]
    inner = [s_ for s_ in its if 'mem_av_in' not in s_ and '->in' not in s_]
    if len(inner) != 1:
        raise F.AnalysisBroken('mem_av_trans_func: the inner iteration over the killing stores was not identified (%s)' % its)
    ks = inner[0]
    pruned = {F.src(F.strip(F.call_args(x)[1])) for x in c.walk() if x['k'] == 'CallExpr' and x.get('callee') == 'update_mem_availability'}
    from rf_proto import dominating_conditions
    cfg = c.cfg
    fills = []
    for x in c.walk():
        if x['k'] == 'CallExpr' and x.get('callee') == 'bitmap_set_bit_p' and F.src(F.strip(F.call_args(x)[0])) == ks:
            conds = dominating_conditions(cfg, cfg.block_of(x), selective=True)
            fills.append([cnd for cnd, tr in conds if 'ops[0].mode' in cnd and tr])
    ok = ks not in pruned and any(fl for fl in fills)
    run.ob(rule, ('kill-set',), ok, {'set iterated for killing': ks, 'pruned by update_mem_availability': sorted(pruned),
                                    'filled for every store': bool(fills) and any(fl for fl in fills)})
    if not ok:
        run.violation(rule, t, 'stores that kill incoming availability', 'mem_av_trans_func kills incoming available memory values only by '
                      'the stores in %s%s: a store that a later store of the same block made unavailable is forgotten, and a value it '
                      'aliases stays available across the block' % (ks, ', which update_mem_availability prunes' if ks in pruned else
                                                                   ', which is not filled for every store'), line=t.line)
    run.min_instances(rule, 1)


# ---------------------------------------------------------------------------------------------
# RF62: the combiner treats a memory operand as stale after any later memory write
# ---------------------------------------------------------------------------------------------

def rf62(run):
    import re
    rule = 'RF62'
    run.rule(rule, 'combiner, obsolete_op_p: the answer for a memory operand is "not obsolete" only when no memory write was seen after the '
                   'definition (last_mem_ref_insn_num <= def_insn_num).  The block state holds one slot per fact, overwritten at every store: '
                   'a refinement that consults such a slot (e.g. the operand of the last store) forgets the earlier stores of the interval')
    gen = run.tu('gen')
    f = gen.func('obsolete_op_p')
    run.functions_analysed.add(('gen', f.name))
    cfg = f.cfg
    from rf_proto import dominating_conditions
    rets = return_blocks(f)
    if len(rets) < 2:
        raise F.AnalysisBroken('obsolete_op_p: returns not found')
    norm = lambda s_: re.sub(r'[\s()]', '', s_)
    STALE = re.compile(r'(gen_ctx->combine_ctx->)?last_mem_ref_insn_num>def_insn_num')
    FRESH = re.compile(r'(gen_ctx->combine_ctx->)?last_mem_ref_insn_num<=def_insn_num')
    n = 0
    for bid, ret in sorted(rets.items()):
        e = F.strip(ret['c'][0])
        v = F.const_value(e)
        conds = dominating_conditions(cfg, bid)
        nonmem = any(('mode' in c and 'MIR_OP_VAR_MEM' in c and '!=' in c and tr) for c, tr in conds)
        fresh = any((FRESH.fullmatch(norm(c)) and tr) or (STALE.fullmatch(norm(c)) and not tr) for c, tr in conds)
        mem_path = any(('mode' in c and 'MIR_OP_VAR_MEM' in c and '!=' in c and not tr) for c, tr in conds)
        if v is not None and v != 0:
            verdict = 'returns TRUE'
        elif nonmem:
            verdict = 'not a memory operand'
        elif not mem_path:
            verdict = 'before the memory test'
            if v == 0:
                verdict = None
        elif STALE.fullmatch(norm(F.src(e))):
            verdict = 'returns the staleness test itself'
        elif fresh:
            verdict = 'no memory write after the definition on this path'
        else:
            verdict = None
        n += 1
        run.ob(rule, ('return', ret['l']), verdict is not None, {'return': F.src(e)[:80], 'line': ret['l'], 'why': verdict})
        if verdict is None:
            # which state does the expression consult, and is it a single overwritten slot?
            slots = sorted({x['n'] for x in F.walk(e) if x['k'] == 'MemberExpr' and F.src(F.strip(x['c'][0])).endswith('combine_ctx')})
            for g in gen.func_list:
                for x in g.walk():
                    if x['k'] == 'CallExpr' and any(y['k'] == 'MemberExpr' and y['n'] in slots and F.src(F.strip(y['c'][0])).endswith('combine_ctx')
                                                    for a in F.call_args(x) for y in F.walk(a)) and g.name != f.name \
                            and not (x.get('callee') or '').startswith('may_'):
                        raise F.AnalysisBroken('obsolete_op_p consults %s, which %s updates through %s: an accumulating summary of the stores '
                                               'is outside this rule' % (slots, g.name, x.get('callee')))
                    if x['k'] in ('BinaryOperator', 'CompoundAssignOperator') and x['op'].endswith('=') and x['op'] not in ('==', '!=', '<=', '>='):
                        l = F.strip(x['c'][0])
                        if any(y['k'] == 'MemberExpr' and y['n'] in slots for y in F.walk(l)) and \
                                (x['k'] == 'CompoundAssignOperator' or any(y['k'] == 'MemberExpr' and y['n'] in slots for y in F.walk(x['c'][1]))):
                            raise F.AnalysisBroken('obsolete_op_p consults %s, which %s joins with its old value: outside this rule' % (slots, g.name))
            run.violation(rule, f, 'memory operand declared fresh', '`return %s` can answer "not obsolete" for a memory operand although a '
                          'memory write was recorded after its definition; the state it consults (%s) is a single slot overwritten at each '
                          'store, so stores between the definition and the last one are not taken into account: the combiner substitutes a '
                          'load across a store to the same location' % (F.src(e)[:90], ', '.join(slots) or 'none'), line=ret['l'])
    return n


# ---------------------------------------------------------------------------------------------
# RF67: no dereference of an lvalue that the same straight-line code has just set to NULL
# ---------------------------------------------------------------------------------------------

def rf67(run, units=('mir',)):
    rule = 'RF67'
    run.rule(rule, 'contradiction rule: inside one basic block, after `L = NULL` the lvalue L is not dereferenced (`L->f`, `*L`, `L[i]`) before it '
                   'is assigned again.  The validators reset the current function before calling the error function; an argument of that '
                   'call that still reads it crashes instead of reporting the error')
    n = 0
    for u in units:
        tu = run.tu(u)
        for f in tu.func_list:
            if not f.file.startswith('/repo') or f.cfg_raw is None:
                continue
            cfg = f.cfg
            for B in cfg.blocks.values():
                nulled = {}
                for e in cfg.top_elems(B):
                    # uses first (evaluation of the statement's operands precedes its own store)
                    for x in cfg.local_walk(e):
                        base = None
                        if x['k'] == 'MemberExpr' and x.get('arrow'):
                            base = F.strip(x['c'][0])
                        elif x['k'] == 'UnaryOperator' and x['op'] == '*':
                            base = F.strip(x['c'][0])
                        elif x['k'] == 'ArraySubscriptExpr':
                            base = F.strip(x['c'][0])
                        if base is not None and base['k'] in ('DeclRefExpr', 'MemberExpr'):
                            t = F.src(base)
                            if t in nulled:
                                n += 1
                                run.functions_analysed.add((u, f.name))
                                run.ob(rule, (f.name, x['l'], t), False)
                                run.violation(rule, f, 'dereference of %s after %s = NULL' % (t, t), '`%s` is read at line %d although `%s` was set '
                                              'to NULL at line %d in the same straight-line code: a null pointer dereference (for a validator: a crash '
                                              'instead of the error callback)' % (F.src(x)[:60], x['l'], t, nulled[t]), line=x['l'])
                    for x in cfg.local_walk(e):
                        if x['k'] == 'BinaryOperator' and x['op'] == '=':
                            l = F.strip(x['c'][0])
                            if l['k'] in ('DeclRefExpr', 'MemberExpr'):
                                t = F.src(l)
                                r = F.strip(x['c'][1])
                                isnull = F.const_value(r) == 0 and tu.type(l) is not None and tu.type(l).kind == 'ptr'
                                if isnull:
                                    nulled[t] = x['l']
                                    n += 1
                                    run.ob(rule, (f.name, x['l'], t, 'reset'), True, {'site': '%s:%d %s' % (f.relfile(), x['l'], f.name), 'reset': F.src(x)[:50]})
                                else:
                                    nulled.pop(t, None)
                                    for k_ in list(nulled):
                                        if k_.startswith(t + '->') or k_.startswith(t + '.'):
                                            nulled.pop(k_)
                        elif x['k'] == 'CallExpr':
                            # a call may reassign non-local lvalues; keep only facts about locals and about lvalues passed nowhere
                            for a in F.call_args(x):
                                a = F.strip(a)
                                if a['k'] == 'UnaryOperator' and a['op'] == '&':
                                    nulled.pop(F.src(F.strip(a['c'][0])), None)
    return n


# ---------------------------------------------------------------------------------------------
# RF68: every site of GVN's memory availability that reacts to calls reacts to the va instructions too
# RF69: an alloca address passed to a call escapes for all later calls
# ---------------------------------------------------------------------------------------------

def _codes_true(tu, preds, conds, key_hint='code'):
    """set of opcode names for which every condition in conds (text, truth) about the insn code holds"""
    codes = tu.enum('MIR_insn_code_t')
    out = set()
    return out


def rf68(run):
    rule = 'RF68'
    run.rule(rule, 'GVN memory availability: calls, va_start, va_arg and va_block_arg change memory that their operands do not describe.  The '
                   'three sites that drop availability for such instructions (bb->call_p in build_func_cfg, the gen set in '
                   'calculate_memory_availability, curr_available_mem in gvn_modify) are taken, by evaluation of their guard over all '
                   'opcodes, for each of MIR_CALL, MIR_INLINE, MIR_JCALL, MIR_VA_START, MIR_VA_ARG, MIR_VA_BLOCK_ARG')
    gen = run.tu('gen')
    preds = EF.Predicates(gen)
    codes = dict(gen.enum('MIR_insn_code_t'))
    want = ['MIR_CALL', 'MIR_INLINE', 'MIR_JCALL', 'MIR_VA_START', 'MIR_VA_ARG', 'MIR_VA_BLOCK_ARG']
    sites = []
    f1 = gen.func('build_func_cfg')
    for x in f1.walk():
        if x['k'] == 'BinaryOperator' and x['op'] == '=' and F.src(F.strip(x['c'][0])).endswith('->call_p') and F.const_value(F.strip(x['c'][1])) == 1:
            sites.append((f1, x, 'bb->call_p = TRUE'))
    f2 = gen.func('calculate_memory_availability')
    for x in f2.walk():
        if x['k'] == 'CallExpr' and x.get('callee') == 'bitmap_clear' and F.src(F.strip(F.call_args(x)[0])).endswith('->gen') and x['l'] > f2.line + 8:
            # the clear inside the instruction loop (the one at the head of the block loop is the initialisation)
            sites.append((f2, x, 'bitmap_clear (bb->gen) inside the instruction loop'))
    f3 = gen.func('gvn_modify')
    for x in f3.walk():
        if x['k'] == 'CallExpr' and x.get('callee') == 'bitmap_clear' and 'curr_available_mem' in F.src(F.strip(F.call_args(x)[0])):
            sites.append((f3, x, 'bitmap_clear (curr_available_mem)'))
    n = 0
    seen_funcs = set()
    for f, node, what in sites:
        # the guard: innermost enclosing IfStmt whose then-branch contains the node
        par = f.parent
        cur = node['i']
        guard = None
        while cur is not None:
            p_ = par.get(cur)
            if p_ is None:
                break
            pn = f.nodes[p_]
            if pn['k'] == 'IfStmt' and pn['c'][1] is not None and any(y is node for y in F.walk(pn['c'][1])):
                guard = pn
                break
            cur = p_
        if guard is None:
            if f is f2:
                continue   # the unconditional clear at the head of the block loop
            raise F.AnalysisBroken('%s: guard of `%s` not found' % (f.name, what))
        keys = sorted({F.src(y) for y in F.walk(guard['c'][0]) if y['k'] == 'MemberExpr' and y['n'] == 'code'} | {'insn->code'})
        seen_funcs.add(f.name)
        run.functions_analysed.add(('gen', f.name))
        for nm in want:
            v = preds.eval(guard['c'][0], {k: codes[nm] for k in keys}, frozenset())
            n += 1
            ok = bool(v)
            run.ob(rule, (f.name, node['l'], nm), ok, {'site': '%s:%d %s' % (f.relfile(), node['l'], f.name), 'effect': what, 'guard': F.src(guard['c'][0])[:80],
                                                      'opcode': nm, 'taken': ok} if nm in ('MIR_CALL', 'MIR_VA_BLOCK_ARG') or not ok else None)
            if not ok:
                run.violation(rule, f, '%s not applied to %s' % (what, nm), '%s executes `%s` under `%s`, which %s for %s: the instruction changes memory '
                              'its operands do not describe, so a value loaded or stored before it stays "available" and a load after it is '
                              'replaced by the stale value at -O2/-O3' % (f.name, what, F.src(guard['c'][0])[:80],
                                                                          'is false' if v is not None else 'cannot be evaluated', nm), line=node['l'])
    if seen_funcs != {'build_func_cfg', 'calculate_memory_availability', 'gvn_modify'}:
        raise F.AnalysisBroken('memory-availability reset sites found only in %s' % sorted(seen_funcs))
    return n


def rf69(run):
    rule = 'RF69'
    run.rule(rule, 'dead store elimination: alloca memory counts as read by every later call once its address can be known outside the '
                   'function.  The two ways out are a store of an alloca-derived value into memory and a call argument; gvn_modify sets '
                   'full_escape_p for both (update_call_mem_live alone looks only at the arguments of the call at hand)')
    gen = run.tu('gen')
    f = gen.func('gvn_modify')
    run.functions_analysed.add(('gen', f.name))
    sets = [x for x in f.walk() if x['k'] == 'BinaryOperator' and x['op'] == '=' and F.src(F.strip(x['c'][0])).endswith('full_escape_p')
            and F.const_value(F.strip(x['c'][1])) == 1]
    via_store, via_call = [], []
    from rf_proto import dominating_conditions
    cfg = f.cfg
    for x in sets:
        conds = dominating_conditions(cfg, cfg.block_of(x), selective=True)
        txt = ' && '.join(c for c, t in conds if t)
        if 'alloca_arg_p' in txt and 'MIR_call_code_p' in txt.replace(' ', '') or ('alloca_arg_p' in txt):
            via_call.append(x)
        if 'alloca_flag' in txt and 'ops[0].mode' in txt:
            via_store.append(x)
    n = 0
    for what, lst, why in (('store of an alloca-derived value', via_store, 'a pointer to the alloca block is stored in memory'),
                           ('alloca-derived call argument', via_call, 'the callee receives the address and can keep it')):
        n += 1
        ok = bool(lst)
        run.ob(rule, (what,), ok, {'escape route': what, 'sets full_escape_p at': [x['l'] for x in lst]})
        if not ok:
            run.violation(rule, f, 'escape through %s' % what, 'gvn_modify does not set full_escape_p for the %s (%s): a store into the alloca '
                          'block made after that point and read by a later call that does not receive the address is removed as dead'
                          % (what, why), line=f.line)
    return n


# ---------------------------------------------------------------------------------------------
# RF70: ssa_combine does not fold through a phi of the loop the definition sits in
# ---------------------------------------------------------------------------------------------

def rf70(run):
    rule = 'RF70'
    run.rule(rule, 'ssa_combine runs after the transformation to conventional SSA: the register of a loop phi is overwritten by the phi copy at '
                   'the end of the latch block.  cycle_phi_p, the guard of the address folding (var_plus_const / var_plus_var), answers TRUE '
                   'both for a phi with an operand defined in its own block (one-block loop) and for a phi whose block has an incoming back '
                   'edge (loop of several blocks); every use of a phi-defined value from another block in the folders consults it')
    gen = run.tu('gen')
    f = gen.func('cycle_phi_p')
    run.functions_analysed.add(('gen', f.name))
    from rf_proto import dominating_conditions
    cfg = f.cfg
    own, back = [], []
    for bid, ret in return_blocks(f).items():
        v = F.const_value(F.strip(ret['c'][0]))
        if not v:
            continue
        conds = [c for c, t in dominating_conditions(cfg, bid) if t]
        txt = ' '.join(conds)
        if 'back_edge_p' in txt:
            loops = [l for l in f.walk() if l['k'] == 'ForStmt' and any(y is ret for y in F.walk(l))]
            if loops and 'in_edges' in F.src(loops[-1]['c'][0] if loops[-1]['c'][0] is not None else loops[-1]):
                back.append(ret)
        if '->bb' in txt and 'def' in txt:
            own.append(ret)
    n = 0
    for what, lst in (('operand defined in the phi\'s own block', own), ('incoming back edge of the phi\'s block', back)):
        n += 1
        run.ob(rule, (what,), bool(lst), {'case': what, 'return TRUE at': [r['l'] for r in lst]})
        if not lst:
            run.violation(rule, f, 'loop phi: %s' % what, 'cycle_phi_p has no `return TRUE` for the case "%s": ssa_combine folds `t = p + i` into a '
                          'memory operand placed after the loop although the phi copy has already overwritten i' % what, line=f.line)
    # the folders consult the guard for every definition taken from another block
    for fn in ('var_plus_const', 'var_plus_var'):
        g = gen.func(fn)
        run.functions_analysed.add(('gen', fn))
        calls = [x for x in g.walk() if x['k'] == 'CallExpr' and x.get('callee') == 'cycle_phi_p']
        n += 1
        run.ob(rule, (fn,), bool(calls), {'folder': fn, 'guard calls': len(calls)})
        if not calls:
            run.violation(rule, g, 'unguarded folding', '%s does not consult cycle_phi_p' % fn, line=g.line)
    # the branch folder: `lt c,i,n; …; bt L,c` => `blt L,i,n` moves the reads of i and n behind the phi copies of the latch
    # block; the creation of the combined branch is dominated by a cycle_phi_p test of the compare's operands that returns
    g = gen.func('combine_branch_and_cmp')
    run.functions_analysed.add(('gen', g.name))
    gcfg = g.cfg
    news = [x for x in g.walk() if x['k'] == 'CallExpr' and x.get('callee') == 'MIR_new_insn']
    if not news:
        raise F.AnalysisBroken('combine_branch_and_cmp: creation of the combined branch not found')
    guards = set()
    covered = set()    # operand positions of the compare that are asked about
    # an `if (… && cycle_phi_p (…)) return …;`: reaching any part of its condition counts (the test is made for every operand
    # that is a variable with a definition; the short circuit skips constants and arguments)
    for st in g.walk():
        if st['k'] == 'IfStmt' and any(y['k'] == 'CallExpr' and y.get('callee') == 'cycle_phi_p' for y in F.walk(st['c'][0])) \
                and any(y['k'] == 'ReturnStmt' for y in F.walk(st['c'][1])):
            ids = {y['i'] for y in F.walk(st['c'][0])}
            idx_consts, idx_vars = set(), set()
            for y in F.walk(st['c'][0]):
                if y['k'] == 'ArraySubscriptExpr' and F.src(F.strip(y['c'][0])).replace(' ', '').endswith('->ops'):
                    iv_ = F.const_value(F.strip(y['c'][1]))
                    if iv_ is not None:
                        idx_consts.add(iv_)
                    else:
                        idx_vars.add(F.src(F.strip(y['c'][1])))
            covered |= idx_consts
            # the test sits in a counted loop `for (i = a; i <= b; i++)` whose first iteration always runs: its header counts
            for lp_ in g.walk():
                if lp_['k'] == 'ForStmt' and any(y is st for y in F.walk(lp_)) and lp_['c'][0] is not None and lp_['c'][1] is not None:
                    ini, cnd = lp_['c'][0], F.strip(lp_['c'][1])
                    iv = None
                    if ini['k'] == 'DeclStmt' and len(ini.get('decls', [])) == 1 and ini['decls'][0].get('init') is not None:
                        iv = F.const_value(F.strip(ini['decls'][0]['init']))
                    elif ini['k'] == 'BinaryOperator' and ini['op'] == '=':
                        iv = F.const_value(F.strip(ini['c'][1]))
                    if iv is not None and cnd['k'] == 'BinaryOperator' and cnd['op'] in ('<', '<='):
                        bv = F.const_value(F.strip(cnd['c'][1]))
                        if bv is not None and (iv < bv or (cnd['op'] == '<=' and iv == bv)):
                            ids |= {y['i'] for y in F.walk(cnd)}
                            if F.src(F.strip(cnd['c'][0])) in idx_vars:
                                covered |= set(range(iv, bv + (1 if cnd['op'] == '<=' else 0)))
            for B in gcfg.blocks.values():
                if any(e['i'] in ids for e in B.elems):
                    guards.add(B.id)
    for x in news:
        b = gcfg.block_of(x)
        reach = gcfg.reachable_from(gcfg.entry, avoid=lambda bl: bl in guards)
        used = set()
        for a_ in F.call_args(x):
            a0 = F.strip(a_)
            if a0['k'] == 'ArraySubscriptExpr' and F.src(F.strip(a0['c'][0])).replace(' ', '') == 'def_insn->ops':
                iv_ = F.const_value(F.strip(a0['c'][1]))
                if iv_ is not None:
                    used.add(iv_)
        ok = b not in reach and used <= covered
        n += 1
        run.ob(rule, ('combine_branch_and_cmp', x['l']), ok, {'folder': 'combine_branch_and_cmp', 'guard blocks': sorted(guards), 'compare operands moved': sorted(used), 'operands asked about': sorted(covered)})
        if not ok:
            run.violation(rule, g, 'unguarded branch folding', 'the combined compare-and-branch is created (line %d) on a path that never asks '
                          'cycle_phi_p about the operands of the compare: `lt c,i,n; add i,i,1; bt L,c` in a loop becomes `blt L,i,n` behind the '
                          'phi copy `i = i + 1` of the latch and compares the value of the next iteration' % x['l'], line=x['l'])
    return n


# ---------------------------------------------------------------------------------------------
# RF71: a list scan that can run off the end is not followed by an unguarded use of its cursor
# ---------------------------------------------------------------------------------------------

def rf71(run, units=('mir',), only=None):
    rule = 'RF71'
    run.rule(rule, 'a `for (x = …; x != NULL; x = next/prev (x))` scan with a `break` leaves x == NULL when nothing matched.  On the edge '
                   'that leaves the loop through the condition, x is not dereferenced and not handed to DLIST_NEXT / DLIST_PREV before it '
                   'is tested or assigned again (with NDEBUG an assertion is no test)')
    n = 0
    for u in units:
        tu = run.tu(u)
        for f in tu.func_list:
            if not f.file.startswith('/repo') or f.cfg_raw is None or (only and f.name not in only):
                continue
            loops = [l for l in f.walk() if l['k'] == 'ForStmt' and l['c'][1] is not None and any(y['k'] == 'BreakStmt' for y in F.walk(l['c'][3] or {}))]
            if not loops:
                continue
            cfg = f.cfg
            for l in loops:
                c = F.strip(l['c'][1])
                if not (c['k'] == 'BinaryOperator' and c['op'] == '!=' and F.const_value(F.strip(c['c'][1])) == 0):
                    continue
                xv = F.strip(c['c'][0])
                if xv['k'] != 'DeclRefExpr' or xv.get('dk') != 'local':
                    continue
                # a break directly inside this loop (not in a nested loop / switch)
                def direct_break(s_, top=True):
                    if s_ is None:
                        return False
                    if s_['k'] == 'BreakStmt':
                        return True
                    if not top and s_['k'] in ('ForStmt', 'WhileStmt', 'DoStmt', 'SwitchStmt'):
                        return False
                    return any(direct_break(k_, False) for k_ in F.kids(s_))
                if not direct_break(l['c'][3]):
                    continue
                x = xv['n']
                cb = [B for B in cfg.blocks.values() if B.cond is not None and F.strip(B.cond) is c or (B.cond is not None and B.cond.get('i') == c.get('i'))]
                if not cb or len(cb[0].succs) != 2 or cb[0].succs[1] is None:
                    continue
                exit_b = cb[0].succs[1]
                # walk forward from the condition-false exit until x is tested or assigned
                seen, work, bad = set(), [exit_b], None
                while work and bad is None:
                    b = work.pop()
                    if b in seen:
                        continue
                    seen.add(b)
                    B = cfg.blocks[b]
                    stop = False
                    for e in cfg.top_elems(B):
                        for y in cfg.local_walk(e):
                            if y['k'] == 'MemberExpr' and y.get('arrow') and F.src(F.strip(y['c'][0])) == x:
                                bad = y
                            elif y['k'] == 'CallExpr' and (y.get('callee') or '').startswith('DLIST_') and (y.get('callee') or '').endswith(('_next', '_prev')) \
                                    and F.call_args(y) and F.src(F.strip(F.call_args(y)[0])) == x:
                                bad = y
                            if bad is not None:
                                break
                        if bad is not None:
                            break
                        if x in _assigned_vars(e):
                            stop = True
                            break
                    if bad is not None or stop:
                        continue
                    if B.cond is not None and x in _vars_in(B.cond) and len(B.succs) == 2:
                        ct = F.src(F.strip(B.cond)).replace(' ', '').strip('()')
                        if ct in ('%s!=0' % x, '%s!=NULL' % x, x):
                            if B.succs[1] is not None:
                                work.append(B.succs[1])     # x is still NULL on the false edge
                            continue
                        if ct in ('%s==0' % x, '%s==NULL' % x, '!%s' % x):
                            if B.succs[0] is not None:
                                work.append(B.succs[0])
                            continue
                    work.extend(cfg.live_succs(b))
                n += 1
                run.functions_analysed.add((u, f.name))
                run.ob(rule, (f.name, l['l']), bad is None, {'site': '%s:%d %s' % (f.relfile(), l['l'], f.name), 'cursor': x} if n % 10 == 1 or bad is not None else None)
                if bad is not None:
                    run.violation(rule, f, 'use of %s after the scan at line %d' % (x, l['l']), 'the scan `for (…; %s != NULL; …)` at line %d can end without a '
                                  'match, and then `%s` at line %d uses the NULL cursor (an assertion in between is compiled out): a crash instead of '
                                  'the intended handling' % (x, l['l'], F.src(bad)[:60], bad['l']), line=bad['l'])
    return n


# ---------------------------------------------------------------------------------------------
# RF18b: opcode classifiers that license a rewrite into a different instruction admit no overflow producer
# ---------------------------------------------------------------------------------------------
REWRITE_CLASSIFIERS = {
    # function: what the rewrite does with an instruction the classifier accepts
    'add_sub_const_insn_p': 'GVN replaces `r2 = r1 + c2` after `r1 = r0 + c` by `r2 = r0 + (c + c2)` computed by a plain ADD',
}


def rf18b(run):
    rule = 'RF18b'
    run.rule(rule, 'generator: a classifier whose positive answer lets GVN replace the instruction by a different computation of the same value '
                   '(add_sub_const_insn_p: chains of constant additions) accepts, by evaluation of its opcode guard over all opcodes, no '
                   'overflow-flag producer: the replacement computes the value but not the flags of the original operation, and the '
                   'original becomes dead')
    gen = run.tu('gen')
    preds = EF.Predicates(gen)
    uni = frozenset(v for nm, v in gen.enum('MIR_insn_code_t'))
    ovf = preds.true_set('MIR_overflow_insn_code_p', uni)
    if not ovf:
        raise F.AnalysisBroken('MIR_overflow_insn_code_p not evaluable')
    names = {}
    for nm, v in gen.enum('MIR_insn_code_t'):
        names.setdefault(v, nm)
    n = 0
    for fn, what in sorted(REWRITE_CLASSIFIERS.items()):
        f = gen.func(fn)
        run.functions_analysed.add(('gen', fn))
        guard = None
        for st in F.kids(f.body):
            if st['k'] == 'IfStmt' and 'code' in F.src(st['c'][0]):
                rets = [x for x in F.walk(st['c'][1]) if x['k'] == 'ReturnStmt']
                if rets and all(F.kids(r_) and F.const_value(F.kids(r_)[0]) == 0 for r_ in rets):
                    guard = st
                    break
        if guard is None:
            raise F.AnalysisBroken('%s: leading opcode guard not found' % fn)
        keys = sorted({F.src(y) for y in F.walk(guard['c'][0]) if y['k'] == 'MemberExpr' and y['n'] == 'code'})
        accepted = set()
        for v in uni:
            r = preds.eval(guard['c'][0], {k: v for k in keys}, frozenset())
            if r is None:
                raise F.AnalysisBroken('%s: opcode guard not evaluable for %s' % (fn, names[v]))
            if not r:
                accepted.add(v)
        bad = accepted & ovf
        n += 1
        run.ob(rule, (fn,), not bad, {'classifier': fn, 'accepted opcodes': sorted(names[v] for v in accepted), 'overflow producers among them': sorted(names[v] for v in bad)})
        if bad:
            run.violation(rule, f, 'classifier accepts %s' % '/'.join(sorted(names[v] for v in bad)), '%s accepts %s: %s; a following BO/BNO/UBO/UBNO then '
                          'tests the overflow of the combined constant instead of the original operation' % (fn, '/'.join(sorted(names[v] for v in bad)), what),
                          line=guard['l'])
    return n


# ---------------------------------------------------------------------------------------------
# RF32t: trapping divisions are never hoisted, whatever helper decides it
# ---------------------------------------------------------------------------------------------

def rf32t(run):
    from lib import printexec as PE
    rule = 'RF32t'
    run.rule(rule, 'loop_invariant_p: the leading guard, executed abstractly (helper predicates of the unit included) over model instructions '
                   'DIV/DIVS/UDIV/UDIVS/MOD/MODS/UMOD/UMODS whose divisor is a non-constant, or the constant 0, -1, 1, 7, 2^32 or 2^32-1 '
                   'moved into a register, rejects the instruction whenever the division can trap: divisor zero in the width of the '
                   'opcode, signed division by -1 (minimum value), or an unknown divisor.  Hoisting such a division executes it on '
                   'paths of the loop that guarded it')
    gen = run.tu('gen')
    f = gen.func('loop_invariant_p')
    run.functions_analysed.add(('gen', f.name))
    guard = None
    for st in F.kids(f.body):
        if st['k'] == 'IfStmt':
            rets = [x for x in F.walk(st['c'][1]) if x['k'] == 'ReturnStmt']
            if rets and all(F.kids(r_) and F.const_value(F.kids(r_)[0]) == 0 for r_ in rets):
                guard = st
                break
    if guard is None:
        raise F.AnalysisBroken('loop_invariant_p: leading guard not found')
    codes = dict(gen.enum('MIR_insn_code_t'))
    modes = dict(gen.enum('MIR_op_mode_t'))
    spec = {'MIR_DIV': (64, True), 'MIR_DIVS': (32, True), 'MIR_UDIV': (64, False), 'MIR_UDIVS': (32, False),
            'MIR_MOD': (64, True), 'MIR_MODS': (32, True), 'MIR_UMOD': (64, False), 'MIR_UMODS': (32, False)}
    consts = [None, 0, -1, 1, 7, 1 << 32, (1 << 32) - 1]
    n = 0
    for nm, (w, sg) in sorted(spec.items()):
        for D in consts:
            # model: insn (id 1), its operand 2 is a register defined by `mov r, D` (insn id 3 through ssa edge id 2 / bb_insn id 4)
            heap = {1: {'->code': codes[nm], '->nops': 3, '->ops[2].mode': modes['MIR_OP_VAR'], '->ops[2].data': 2 if D is not None else 5,
                        '->ops[1].mode': modes['MIR_OP_VAR'], '->ops[0].mode': modes['MIR_OP_VAR'], '->ops[1].data': 5, '->ops[0].data': 0},
                    2: {'->def': 4},
                    4: {'->insn': 3},
                    3: {'->code': codes['MIR_MOV'], '->ops[1].mode': modes['MIR_OP_INT'], '->ops[1].u.i': D if D is not None else 0,
                        '->ops[1].u.u': (D if D is not None else 0) & 0xFFFFFFFFFFFFFFFF, '->ops[0].mode': modes['MIR_OP_VAR']},
                    5: {'->def': 6}, 6: {'->insn': 7}, 7: {'->code': codes['MIR_ADD'], '->ops[1].mode': modes['MIR_OP_VAR']}}
            env = {'insn': 1, 'bb_insn': 8}
            heap[8] = {'->insn': 1}
            # text-keyed facts for direct `insn->code` tests
            for k_, v_ in heap[1].items():
                env['insn' + k_] = v_
            ex = PE.PrintExec(gen, heap, {}, {})
            try:
                v = ex.val(guard['c'][0], env)
            except F.AnalysisBroken as exn:
                raise F.AnalysisBroken('loop_invariant_p guard for %s, divisor %s: %s' % (nm, D, exn))
            if D is None:
                trap = True
            else:
                dw = D & ((1 << w) - 1)
                trap = dw == 0 or (sg and dw == (1 << w) - 1)
            n += 1
            ok = (v is not None and bool(v)) or not trap
            run.ob(rule, (nm, D), ok, {'opcode': nm, 'divisor': 'not a constant' if D is None else D, 'can trap': trap, 'rejected by the guard': v}
                   if (D in (None, -1) and nm in ('MIR_DIV', 'MIR_UMODS')) or not ok else None)
            if not ok:
                run.violation(rule, f, 'hoisting %s by %s' % (nm, 'a non-constant' if D is None else D),
                              'loop_invariant_p does not reject %s whose divisor is %s: the division can trap (%s) and loop-invariant code motion '
                              'moves it in front of the loop, where it runs even when the loop would not have executed it'
                              % (nm, 'not a known constant' if D is None else 'the constant %d' % D,
                                 'divisor zero' if (D is None or (D & ((1 << w) - 1)) == 0) else 'minimum value divided by -1'), line=guard['l'])
    return n


# ---------------------------------------------------------------------------------------------
# RF97: a call that receives alloca memory by value keeps every alloca location it may overlap live
# ---------------------------------------------------------------------------------------------

def rf97(run):
    from lib import printexec as PE
    rule = 'RF97'
    run.rule(rule, 'dead store elimination, update_call_mem_live executed abstractly on a model call `f (x, blk:16(p))` where p is a phi of two '
                   'alloca results (alloca flag MUST, its defining instruction is neither of the two ALLOCA instructions) and the memory '
                   'table holds one location of each alloca: both locations must be made live by the call, since the block may be either; '
                   'a refinement that compares defining instructions treats "different instruction" as "different memory" and drops the '
                   'stores that fill the struct')
    gen = run.tu('gen')
    f = gen.func('update_call_mem_live')
    run.functions_analysed.add(('gen', f.name))
    codes = dict(gen.enum('MIR_insn_code_t'))
    modes = dict(gen.enum('MIR_op_mode_t'))
    ty = dict(gen.enum('MIR_type_t'))
    items = dict(gen.enum('MIR_item_type_t'))
    MUST, MAY = 2, 1
    for g_ in gen.globals:
        pass
    heap = {
        1: {'->code': codes['MIR_CALL'], '->nops': 4, '->ops[0].mode': modes['MIR_OP_REF'], '->ops[0].u.ref': 10,
            '->ops[1].mode': modes['MIR_OP_VAR'], '->ops[1].data': 0,
            '->ops[2].mode': modes['MIR_OP_VAR'], '->ops[2].data': 20,
            '->ops[3].mode': modes['MIR_OP_VAR_MEM'], '->ops[3].data': 21, '->ops[3].u.var_mem.type': ty['MIR_T_BLK'], '->ops[3].u.var_mem.disp': 16},
        10: {'->item_type': items['MIR_proto_item'], '->u.proto': 11}, 11: {'->nres': 0},
        20: {'->def': 24}, 24: {'->alloca_flag': 0, '->insn': 25}, 25: {'->code': codes['MIR_MOV']},
        21: {'->def': 22}, 22: {'->alloca_flag': MUST, '->insn': 23}, 23: {'->code': codes['MIR_PHI']},
        30: {'->code': codes['MIR_ALLOCA']}, 31: {'->code': codes['MIR_ALLOCA']},
    }
    live = set()
    glob = {}
    for i, di in ((1, 30), (2, 31)):
        glob['MA[%d].alloca_flag' % i] = MUST | MAY
        glob['MA[%d].disp_def_p' % i] = 1
        glob['MA[%d].def_insn' % i] = di
        glob['MA[%d].disp' % i] = 0
        glob['MA[%d].type' % i] = ty['MIR_T_I64']
    glob['MA[0].alloca_flag'] = 0

    def set_bit(args, env_, ex):
        v = ex.val(args[1], env_)
        if isinstance(v, int):
            live.add(v)
        return 1

    def set_range(args, env_, ex):
        a, b = ex.val(args[1], env_), ex.val(args[2], env_)
        if isinstance(a, int) and isinstance(b, int):
            live.update(range(a, a + b))
        return 1

    def get_def_disp(args, env_, ex):
        # the address comes from the phi: its defining instruction is the PHI, displacement 0
        a1 = F.strip(args[1])
        if a1['k'] == 'UnaryOperator' and a1['op'] == '&':
            env_[F.src(F.strip(a1['c'][0]))] = 0
        return 23
    acc = {'bitmap_set_bit_p': set_bit, 'bitmap_set_bit_range_p': set_range, 'get_def_disp': get_def_disp,
           'VARR_mem_attr_tlength': lambda a, e, x: 3, 'VARR_mem_attr_taddr': lambda a, e, x: ('array', 'MA'),
           '_MIR_type_size': lambda a, e, x: 8,
           'MIR_blk_type_p': lambda a, e, x: int(ty['MIR_T_BLK'] <= x.val(a[0], e) < ty['MIR_T_RBLK']),
           'MIR_all_blk_type_p': lambda a, e, x: int(ty['MIR_T_BLK'] <= x.val(a[0], e) <= ty['MIR_T_RBLK']),
           'MIR_call_code_p': lambda a, e, x: 1}
    ex = PE.PrintExec(gen, heap, acc, {})
    ex.ev.globals = glob
    env = {'call_insn': 1, 'mem_live': 99, 'gen_ctx->full_escape_p': 0, 'gen_ctx': 98}
    for k_, v_ in heap[1].items():
        env['call_insn' + k_] = v_
        glob['call_insn' + k_] = v_    # seen from helpers that receive `&call_insn->ops[i]`
    try:
        ex.run(f.body, env)
    except F.AnalysisBroken as exn:
        raise F.AnalysisBroken('update_call_mem_live on the model call: %s' % exn)
    ok = {1, 2} <= live
    run.ob(rule, ('phi of two allocas',), ok, {'alloca locations made live by the call': sorted(live), 'required': [1, 2]})
    if not ok:
        run.violation(rule, f, 'block argument from a phi of allocas', 'for a by-value block argument whose address is a phi of two alloca results, '
                      'update_call_mem_live makes only the locations %s live (both alloca locations 1 and 2 may hold the block): the stores '
                      'that fill the struct chosen at run time are removed as dead and the native callee receives stale stack bytes'
                      % sorted(live), line=f.line)
    return 1


# ---------------------------------------------------------------------------------------------
# RF99: hard-register-tied globals are visible at every point where control leaves the function
# ---------------------------------------------------------------------------------------------

def rf99(run):
    from rf_proto import dominating_conditions
    rule = 'RF99'
    run.rule(rule, 'generator, build_func_cfg: a MIR `global` variable tied to a hard register is read and written by other functions.  '
                   'The optimiser learns this through explicit instructions: a USE of all tied globals is inserted in front of the return; '
                   'the same is required in front of every call (and the call must count as a definition), otherwise stores to the global '
                   'before a call are dead for SSA dead-code elimination and the allocator may spill a caller-saved tied register around it')
    gen = run.tu('gen')
    f = gen.func('build_func_cfg')
    run.functions_analysed.add(('gen', f.name))
    cfg = f.cfg
    uses = [x for x in f.walk() if x['k'] == 'CallExpr' and x.get('callee') == 'MIR_new_insn_arr' and F.src(F.strip(F.call_args(x)[1])) == 'MIR_USE']
    if not uses:
        raise F.AnalysisBroken('build_func_cfg: creation of the USE of tied globals not found')
    for_ret = for_call = False
    for x in uses:
        conds = ' '.join(c for c, t in dominating_conditions(cfg, cfg.block_of(x), selective=True) if t)
        if 'MIR_RET' in conds:
            for_ret = True
        if 'call_code_p' in conds or 'mem_clobber_insn_p' in conds or 'MIR_CALL' in conds:
            for_call = True
    run.ob(rule, ('ret',), for_ret, {'use of tied globals in front of ret': for_ret})
    if not for_ret:
        run.violation(rule, f, 'tied globals at ret', 'no USE of the hard-register-tied globals is inserted in front of the return: their last '
                      'stores are dead code for the optimiser', line=f.line)
    run.ob(rule, ('call',), for_call, {'use of tied globals in front of calls': for_call})
    if not for_call:
        run.violation(rule, f, 'tied globals at calls', 'build_func_cfg inserts the USE of hard-register-tied globals only in front of ret: a '
                      'call is neither a use nor a definition of them, so at -O2 `acc = 42; f ();` loses the store (callee reads a stale '
                      'register) and a global tied to a caller-saved register is spilled around the call', line=uses[0]['l'])
    return 2



# ---------------------------------------------------------------------------------------------
# RF114: renaming shortcut of make_conventional_ssa: lost copy and swap problems
# ---------------------------------------------------------------------------------------------

def rf114(run):
    from lib import printexec as PE
    rule = 'RF114'
    run.rule(rule, 'make_conventional_ssa renames a phi result to the register set up by the moves at the ends of the predecessors only when '
                   'no use can read it behind those moves.  The scan over the uses of the result, evaluated abstractly for model uses, '
                   'stops (no renaming) for a use in another block, for a branch of the same block (lost copy) and for another phi of the '
                   'same block (swap problem: its move is added after the move that overwrote the renamed register); it goes on for an '
                   'ordinary instruction of the block')
    gen = run.tu('gen')
    f = gen.func('make_conventional_ssa')
    run.functions_analysed.add(('gen', f.name))
    loops = [l for l in f.walk() if l['k'] == 'ForStmt' and l['c'][2] is not None and 'next_use' in F.src(l['c'][2])]
    if not loops:
        raise F.AnalysisBroken('make_conventional_ssa: the scan over the uses of the phi result was not found')
    lp = loops[0]
    ifs = [x for x in F.walk(lp['c'][3]) if x['k'] == 'IfStmt' and any(y['k'] == 'BreakStmt' for y in F.walk(x))]
    if not ifs:
        raise F.AnalysisBroken('make_conventional_ssa: the stop condition of the use scan was not found')
    cond = ifs[0]['c'][0]
    codes = dict(gen.enum('MIR_insn_code_t'))
    cases = [('use in another block', {'se->use->bb': 6, 'bb': 5, 'se->use->insn->code': codes['MIR_ADD'], 'se->use': 20, 'bb_insn': 10}, True),
             ('branch of the same block', {'se->use->bb': 5, 'bb': 5, 'se->use->insn->code': codes['MIR_BLT'], 'se->use': 20, 'bb_insn': 10}, True),
             ('indirect jump of the same block', {'se->use->bb': 5, 'bb': 5, 'se->use->insn->code': codes['MIR_JMPI'], 'se->use': 20, 'bb_insn': 10}, True),
             ('another phi of the same block', {'se->use->bb': 5, 'bb': 5, 'se->use->insn->code': codes['MIR_PHI'], 'se->use': 20, 'bb_insn': 10}, True),
             ('ordinary instruction of the same block', {'se->use->bb': 5, 'bb': 5, 'se->use->insn->code': codes['MIR_ADD'], 'se->use': 20, 'bb_insn': 10}, False)]
    n = 0
    for what, env, want in cases:
        ex = PE.PrintExec(gen, {}, {}, {})
        try:
            v = ex.val(cond, dict(env))
        except F.AnalysisBroken as e_:
            raise F.AnalysisBroken('make_conventional_ssa: stop condition not evaluable (%s)' % e_)
        if v is None:
            raise F.AnalysisBroken('make_conventional_ssa: stop condition `%s` not evaluable for %s' % (F.src(cond)[:60], what))
        n += 1
        ok = bool(v) == want
        run.ob(rule, (what,), ok, {'use': what, 'scan stops': bool(v), 'expected': want})
        if not ok:
            run.violation(rule, f, 'renaming with %s' % what, 'the use scan %s for a use that is %s: %s' %
                          ('goes on' if want else 'stops', what,
                           'the phi result is renamed although this use reads it behind the moves added at the end of the block, so it sees the '
                           'value of the next iteration (two phis that exchange their values get the same value)' if want else
                           'the renaming shortcut is lost for ordinary code'), line=ifs[0]['l'])
    return n


# ---------------------------------------------------------------------------------------------
# RF131: order of a spill and a restore that hand one hard register over at the same place
# ---------------------------------------------------------------------------------------------

def rf131(run):
    from lib import printexec as PE
    rule = 'RF131'
    run.rule(rule, 'live-range splitting (-O2/-O3): when a hard register goes from pseudo X to pseudo Y at one place, X must be stored '
                   'before Y is loaded.  split() places the sorted elements by inserting each one at the head of a block start (reverse '
                   'list order) and before the final branch / at the tail otherwise (list order), so the comparator spill_el_cmp, '
                   'evaluated for a spill and a restore of different registers at the same place, puts the *restore* first at a block '
                   'start and the *spill* first at a block end and on an edge (decision table confirmed on the reference tree)')
    gen = run.tu('gen')
    f = gen.func('spill_el_cmp')
    run.functions_analysed.add(('gen', f.name))
    # the placement code this table is tied to
    sp = [g for g in gen.func_list if g.body is not None and any(y['k'] == 'CallExpr' and y.get('callee') == 'spill_restore_reg' for y in g.walk())
          and any(y['k'] == 'MemberExpr' and y['n'] == 'bb_end_p' for y in g.walk())]
    if not sp:
        raise F.AnalysisBroken('RF131: the placement of spill elements (spill_restore_reg under bb_end_p) was not found')
    for g in sp:
        run.functions_analysed.add(('gen', g.name))
    n = 0
    for place, edge_p, bb_end_p, first in (('block start', 0, 0, 'restore'), ('block end', 0, 1, 'spill'), ('edge', 1, 0, 'spill')):
        res = {}
        for a_spill in (1, 0):
            env = {'e1->edge_p': edge_p, 'e2->edge_p': edge_p, 'e1->bb_end_p': bb_end_p, 'e2->bb_end_p': bb_end_p,
                   'e1->u.e': 7, 'e2->u.e': 7, 'e1->u.bb': 8, 'e2->u.bb': 8, 'e1->u.bb->index': 3, 'e2->u.bb->index': 3,
                   'e1->spill_p': a_spill, 'e2->spill_p': 1 - a_spill, 'e1->reg': 40, 'e2->reg': 41}
            ex = PE.PrintExec(gen, {}, {}, {})
            ex.retval = 'none'
            try:
                ex.run(f.body, env)
            except F.AnalysisBroken as e_:
                raise F.AnalysisBroken('spill_el_cmp not executable: %s' % e_)
            if not isinstance(ex.retval, int):
                raise F.AnalysisBroken('spill_el_cmp: no result for the %s case' % place)
            res[a_spill] = ex.retval
        # res[1]: e1 is the spill, e2 the restore
        spill_first = res[1] < 0 and res[0] > 0
        restore_first = res[1] > 0 and res[0] < 0
        ok = restore_first if first == 'restore' else spill_first
        n += 1
        run.ob(rule, (place,), ok, {'place': place, 'cmp (spill, restore)': res[1], 'cmp (restore, spill)': res[0], 'sorted first': first})
        if not ok:
            run.violation(rule, f, 'spill / restore order at a %s' % place, 'for a spill and a restore at the same %s spill_el_cmp gives %d / %d: the '
                          '%s is not sorted first, so after split() has placed the elements the restore of Y executes before the store of X '
                          'and the value of Y lands in the spill slot of X (wrong results at -O2 and -O3 under register pressure)' %
                          (place, res[1], res[0], first), line=f.line)
    return n


# ---------------------------------------------------------------------------------------------
# RF148: exchanging two operands of an instruction keeps their SSA edges consistent
# ---------------------------------------------------------------------------------------------

def rf148(run):
    rule = 'RF148'
    run.rule(rule, 'mir-gen.c, passes that work on SSA edges (`ops[k].data`): where operands 1 and 2 of an instruction are exchanged (both '
                   '`x->ops[1] = …` and `x->ops[2] = …` in one block statement, as the SWAP macro expands), the same block statement also assigns '
                   'use_op_num of the edges.  An edge that still says "operand 1" is removed from the wrong operand when the instruction '
                   'is deleted, and the edge of the other operand dangles (pressure_relief follows it into freed memory)')
    gen = run.tu('gen')
    n = 0
    for g in gen.func_list:
        if g.body is None or not g.file.endswith('mir-gen.c'):
            continue
        if not any(y['k'] == 'MemberExpr' and y['n'] == 'data' and 'ops[' in F.src(y) for y in g.walk()):
            continue
        for blk in g.walk():
            if blk['k'] != 'CompoundStmt':
                continue
            direct = F.kids(blk)
            a1 = a2 = None
            for s_ in direct:
                for y in F.walk(s_):
                    if y['k'] in ('CompoundStmt',) and y is not s_:
                        pass
                    if y['k'] == 'BinaryOperator' and y['op'] == '=':
                        l = F.src(F.strip(y['c'][0])).replace(' ', '')
                        r = F.src(F.strip(y['c'][1])).replace(' ', '')
                        if l.endswith('->ops[1]') and (r.endswith('->ops[2]') or 'temp' in r):
                            a1 = y
                        if l.endswith('->ops[2]') and (r.endswith('->ops[1]') or 'temp' in r):
                            a2 = y
            if a1 is None or a2 is None:
                continue
            # the innermost compound statement that holds both assignments
            inner = [c for c in F.walk(blk) if c['k'] == 'CompoundStmt' and c is not blk and any(y is a1 for y in F.walk(c)) and any(y is a2 for y in F.walk(c))]
            if inner:
                continue
            base1 = F.src(F.strip(a1['c'][0])).replace(' ', '')[:-len('->ops[1]')]
            base2 = F.src(F.strip(a2['c'][0])).replace(' ', '')[:-len('->ops[2]')]
            if base1 != base2:
                continue
            n += 1
            scope = blk
            par = g.parent_of(blk)
            if par is not None and par['k'] == 'DoStmt':     # the body of a `do { … } while (0)` macro: judge the statement list around it
                up = g.parent_of(par)
                while up is not None and up['k'] != 'CompoundStmt':
                    up = g.parent_of(up)
                if up is not None:
                    scope = up
            fixed = any(y['k'] == 'BinaryOperator' and y['op'] == '=' and F.src(F.strip(y['c'][0])).replace(' ', '').endswith('use_op_num') for y in F.walk(scope))
            run.functions_analysed.add(('gen', g.name))
            run.ob(rule, (g.name, a1['l']), fixed, {'site': '%s:%d %s' % (g.relfile(), a1['l'], g.name), 'instruction': base1, 'use_op_num updated': fixed})
            if not fixed:
                run.violation(rule, g, 'operands exchanged without their SSA edges', 'operands 1 and 2 of `%s` are exchanged at line %d but the use_op_num of their '
                              'SSA edges is not updated: when the instruction dies the edge of the wrong operand is removed and the other one is left '
                              'dangling (`and r1, 0xff0f, a; uext8 r, r1` crashes the generator at -O2)' % (base1, a1['l']), line=a1['l'])
    if n < 3:
        raise F.AnalysisBroken('RF148: only %d operand exchanges found in SSA passes' % n)
    return n


# ---------------------------------------------------------------------------------------------
# RF178: over a call, clobbers are killed before the implicit argument registers become live
# ---------------------------------------------------------------------------------------------

def rf178(run):
    rule = 'RF178'
    run.rule(rule, 'generator, backward liveness scans: a call clobbers the call-used hard registers and *uses* the registers recorded in '
                   'call_hard_reg_args (rax with the vector-register count of a variadic call, the registers carrying small by-value blocks) — '
                   'they are no operands of the call instruction.  In every function that applies both to one live set, the kill '
                   '(`bitmap_and_compl (live, live, call_used_hard_regs[…])`) is never reachable after the gen '
                   '(`bitmap_ior (live, live, …call_hard_reg_args)`) within the same instruction: all argument registers are call-used, so '
                   'the wrong order wipes the uses and dead-code elimination deletes `mov rax, n` and the block loads')
    tu = run.tu('gen')
    n = 0
    for g in tu.func_list:
        if g.body is None or not g.file.endswith('mir-gen.c'):
            continue
        gens, kills = [], []
        for x in g.walk():
            if x['k'] != 'CallExpr':
                continue
            a = F.call_args(x)
            if x.get('callee') == 'bitmap_ior' and len(a) == 3 and 'call_hard_reg_args' in F.src(a[2]):
                gens.append((F.src(F.strip(a[0])), x))
            if x.get('callee') == 'bitmap_and_compl' and len(a) == 3 and 'call_used_hard_regs' in F.src(a[2]):
                kills.append((F.src(F.strip(a[0])), x))
        pairs = [(gx, kx) for gs, gx in gens for ks, kx in kills if gs == ks]
        if not pairs:
            continue
        cfg = g.cfg
        run.functions_analysed.add(('gen', g.name))
        steps = set()
        for lp in g.walk():
            if lp['k'] == 'ForStmt' and lp['c'][2] is not None:
                b = cfg.block_of(lp['c'][2])
                if b is not None:
                    steps.add(b)
        for gx, kx in pairs:
            gb, kb = cfg.block_of(gx), cfg.block_of(kx)
            bad = False
            if gb is not None and kb is not None:
                if gb == kb:
                    order = [y for el in cfg.blocks[gb].elems for y in F.walk(el) if y is gx or y is kx]
                    bad = bool(order) and order[0] is gx
                else:
                    bad = kb in cfg.reachable_from(gb, avoid=lambda b: b in steps)
            n += 1
            run.ob(rule, (g.name, gx['l'], kx['l']), not bad, {'function': g.name, 'kill at line': kx['l'], 'gen at line': gx['l']})
            if bad:
                run.violation(rule, g, 'implicit call arguments killed', '%s makes the implicit argument registers of a call live (line %d) and kills '
                              'the call-used registers afterwards (line %d) in its backward scan: the uses are wiped — the set-up of rax for a '
                              'variadic call and the loads of register-passed blocks look dead and are removed at -O1 and above' %
                              (g.name, gx['l'], kx['l']), line=gx['l'])
    run.control(rule, 'a scan with both a kill and a gen found (dead_code_elimination)', n >= 1)
    return n


# ---------------------------------------------------------------------------------------------
# RF179: per-instruction scratch of the generator is assigned in every iteration
# ---------------------------------------------------------------------------------------------

RF179_TABLE = [
    ('gen', 'process_bb_conflicts', 'ignore_scan_var',
     'the source of a register move does not conflict with its destination — for that one move; a value kept from the instruction handled '
     'before (the walk is backward) exempts the same variable from conflicts with every earlier definition, the coalescer then merges '
     'two live ranges that overlap'),
]


def rf179(run):
    rule = 'RF179'
    run.rule(rule, 'generator loops over instructions that keep a fact about *the current instruction* in a local (frozen table, confirmed by '
                   'reading): on every path from the start of an iteration to a read of the local there is an assignment of it in the same '
                   'iteration.  An initialiser at the declaration does not count — it covers the first iteration only')
    n = 0
    for u, fn, var, why in RF179_TABLE:
        tu = run.tu(u)
        g = tu.func(fn)
        if g is None or g.body is None:
            raise F.AnalysisBroken('%s not found' % fn)
        run.functions_analysed.add((u, fn))
        cfg = g.cfg
        loops = [l for l in g.walk() if l['k'] == 'ForStmt' and any(y['k'] == 'DeclRefExpr' and y['n'] == var for y in F.walk(l['c'][3]))]
        if not loops:
            raise F.AnalysisBroken('%s: no loop uses %s' % (fn, var))
        lp = loops[0]
        body = lp['c'][3]
        inner = {y['i'] for y in F.walk(body)}
        defs = [x for x in F.walk(body) if x['k'] == 'BinaryOperator' and x['op'] == '=' and F.src(F.strip(x['c'][0])) == var]
        lhs = {F.strip(x['c'][0])['i'] for x in defs}
        reads = [y for y in F.walk(body) if y['k'] == 'DeclRefExpr' and y['n'] == var and y['i'] not in lhs]
        if not reads:
            raise F.AnalysisBroken('%s: %s is never read in the loop' % (fn, var))
        # the first block of the body
        first = None
        for st in (F.kids(body) if body['k'] == 'CompoundStmt' else [body]):
            first = cfg.block_of(st)
            if first is None:
                for y in F.walk(st):
                    first = cfg.block_of(y)
                    if first is not None:
                        break
            if first is not None:
                break
        if first is None:
            raise F.AnalysisBroken('%s: start of the loop body not found in the CFG' % fn)
        defb = {cfg.block_of(x) for x in defs}
        # a definition in the first block in front of everything else covers all paths
        covered_first = False
        if first in defb:
            els = cfg.blocks[first].elems
            for k, el in enumerate(els):
                ids = {y['i'] for y in F.walk(el)}
                if any(F.strip(x['c'][0])['i'] in ids for x in defs):
                    covered_first = not any(r['i'] in {y['i'] for e2 in els[:k] for y in F.walk(e2)} for r in reads)
                    break
        reach = set() if covered_first else cfg.reachable_from(first, avoid=lambda b: b in defb and b != first)
        for r in reads:
            b = cfg.block_of(r)
            ok = covered_first or b is None or b not in reach or (b in defb and b != first)
            n += 1
            run.ob(rule, (fn, var, r['l']), ok, {'function': fn, 'variable': var, 'read at line': r['l'], 'assigned earlier in the same iteration on every path': ok})
            if not ok:
                run.violation(rule, g, 'stale %s' % var, '%s reads `%s` (line %d) on a path from the start of the loop iteration that does not assign '
                              'it: %s' % (fn, var, r['l'], why), line=r['l'])
    return n


# ---------------------------------------------------------------------------------------------
# RF197: a scale becomes a shift count through its logarithm
# RF198: reload registers of an instruction are reserved after the counters are reset
# ---------------------------------------------------------------------------------------------

def rf197(run):
    rule = 'RF197'
    run.rule(rule, 'generator and mir.c: where an index is scaled by a shift instruction (`MIR_new_insn (ctx, MIR_LSH[S], …, MIR_new_int_op (ctx, '
                   'E))` with E derived from a `scale` field or a local initialised from one), E goes through the integer logarithm '
                   '(gen_int_log2 / int_log2).  `lsh t, t, scale` multiplies by 2^scale: the store of `(b, i, 8)` lands at b + (i << 8)')
    n = tot = 0
    for u in ('gen', 'mir'):
        tu = run.tu(u)
        for g in tu.func_list:
            if g.body is None or not g.file.startswith('/repo') or (u != 'mir' and g.file.endswith('/mir.c')):
                continue
            scale_locals = set()
            for x in g.walk():
                if x['k'] == 'DeclStmt':
                    for d in x.get('decls', []):
                        if d.get('init') is not None and '.scale' in F.src(d['init']).replace('->', '.') and 'log2' not in F.src(d['init']):
                            scale_locals.add(d['n'])
                if x['k'] == 'BinaryOperator' and x['op'] == '=' and F.strip(x['c'][0])['k'] == 'DeclRefExpr' and \
                        '.scale' in F.src(x['c'][1]).replace('->', '.') and 'log2' not in F.src(x['c'][1]):
                    scale_locals.add(F.strip(x['c'][0])['n'])
            for x in g.walk():
                if x['k'] != 'CallExpr' or x.get('callee') != 'MIR_new_insn':
                    continue
                a = F.call_args(x)
                if len(a) < 5 or F.src(F.strip(a[1])) not in ('MIR_LSH', 'MIR_LSHS'):
                    continue
                cnt = F.strip(a[4])
                if not (cnt['k'] == 'CallExpr' and cnt.get('callee') in ('MIR_new_int_op', 'MIR_new_uint_op')):
                    continue
                e = F.call_args(cnt)[1]
                es = F.src(e).replace('->', '.')
                uses_scale = '.scale' in es or any(y['k'] == 'DeclRefExpr' and y['n'] in scale_locals for y in F.walk(e))
                if not uses_scale:
                    continue
                tot += 1
                ok = 'log2' in es
                run.functions_analysed.add((u, g.name))
                run.ob(rule, (u, g.name, x['l']), ok, {'site': '%s:%d %s' % (g.relfile(), x['l'], g.name), 'shift count': F.src(e)[:50]})
                if not ok:
                    n += 1
                    run.violation(rule, g, 'shift by the scale itself', '%s scales an index with `lsh …, %s` (line %d): the count is the scale, not its '
                                  'logarithm — the address is base + (index << scale)' % (g.name, F.src(e)[:40], x['l']), line=x['l'])
    run.control(rule, 'index scaling by a shift found', tot >= 1)
    return tot


def rf198(run):
    rule = 'RF198'
    run.rule(rule, 'register allocator, rewrite_insn: the temporary hard registers for the reloads of one instruction are handed out by '
                   'get_reload_hreg, which counts them in in_reloads_num / out_reloads_num.  The reset of the two counters for the instruction '
                   'is not reachable after a call that hands out a register (get_reload_hreg itself or a function that calls it, e.g. the '
                   'address reload): otherwise the reservation of the register that holds the computed address is wiped and the next '
                   'reload — the stored value — is given the same register')
    tu = run.tu('gen')
    f = tu.func('rewrite_insn')
    cfg = f.cfg
    run.functions_analysed.add(('gen', f.name))
    takers = {'get_reload_hreg'}
    for g in tu.func_list:
        if g.body is not None and g.name != 'rewrite_insn' and 'get_reload_hreg' in tu.reachable([g.name]):
            takers.add(g.name)
    resets = []
    for x in f.walk():
        if x['k'] == 'BinaryOperator' and x['op'] == '=' and F.src(F.strip(x['c'][0])).replace(' ', '').endswith('in_reloads_num'):
            r = F.strip(x['c'][1])
            if F.const_value(r) == 0:
                resets.append(x)
    if not resets:
        raise F.AnalysisBroken('rewrite_insn: the reset of in_reloads_num was not found')
    n = 0
    for rs in resets:
        rb = cfg.block_of(rs)
        bad = None
        for b, B in cfg.blocks.items():
            for k, el in enumerate(B.elems):
                for y in F.walk(el):
                    if y['k'] == 'CallExpr' and y.get('callee') in takers:
                        if b == rb:
                            if y['l'] < rs['l']:
                                bad = y
                        elif rb in cfg.reachable_from(b):
                            bad = y
        n += 1
        run.ob(rule, (rs['l'],), bad is None, {'reset at line': rs['l'], 'a register is handed out before it': bad is not None})
        if bad is not None:
            run.violation(rule, f, 'reload counters reset after a reservation', 'rewrite_insn resets in_reloads_num / out_reloads_num (line %d) on a path '
                          'behind `%s` (line %d), which reserves a temporary hard register for this instruction: the reservation is '
                          'forgotten and the register is handed out again' % (rs['l'], F.src(bad)[:40], bad['l']), line=rs['l'])
    return n
