"""System V AMD64 psABI facts used as ground truth by RF10 (not derived from the source under analysis)."""
INT_ARG_REGS = ['DI', 'SI', 'DX', 'CX', 'R8', 'R9']          # rdi, rsi, rdx, rcx, r8, r9
INT_ARG_HW = [7, 6, 2, 1, 8, 9]                               # hardware register numbers of the above
SSE_ARG_REGS = ['XMM%d' % i for i in range(8)]
NI, NX = len(INT_ARG_REGS), len(SSE_ARG_REGS)
CALLEE_SAVED = {'BX', 'BP', 'R12', 'R13', 'R14', 'R15'}      # rsp is the stack pointer itself
REG_SAVE_AREA = 8 * NI + 16 * NX                              # 176
GP_LIMIT = 8 * NI                                             # gp_offset value when the integer registers are exhausted (48)
FP_LIMIT = 8 * NI + 16 * NX                                   # fp_offset value when the SSE registers are exhausted (176)
INT_RET = ['AX', 'DX']
SSE_RET = ['XMM0', 'XMM1']
X87_RET = ['ST0', 'ST1']
