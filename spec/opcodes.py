"""Opcode-name grammar: derives, from an opcode's NAME alone, what MIR.md's naming convention says
the instruction is.  This is the specification side of RF8/RF9/RF17; it never looks at the
implementation.

MIR.md conventions encoded here:
  * suffix S  -> works on the lower 32 bits ("MIR integer insns")
  * prefix U  -> unsigned variant
  * prefix F / D / LD -> float / double / long double
  * X2Y       -> conversion from X to Y (I, UI, F, D, LD)
  * B<cmp>    -> compare and branch, first operand is the label
  * EXT<n>/UEXT<n> -> sign/zero extension of the lower n bits
"""
import re

FP = {'F': 'f', 'D': 'd', 'LD': 'ld'}
MODE = {'i': 'MIR_OP_INT', 'f': 'MIR_OP_FLOAT', 'd': 'MIR_OP_DOUBLE', 'ld': 'MIR_OP_LDOUBLE'}
CTYPE = {'f': 'float', 'd': 'double', 'ld': 'long double'}

ARITH = {'ADD': '+', 'SUB': '-', 'MUL': '*', 'DIV': '/', 'MOD': '%'}
LOGIC = {'AND': '&', 'OR': '|', 'XOR': '^', 'LSH': '<<', 'RSH': '>>'}
CMP = {'EQ': '==', 'NE': '!=', 'LT': '<', 'LE': '<=', 'GT': '>', 'GE': '>='}
# where signedness changes the result (two's complement): required; elsewhere "don't care"
SIGN_MATTERS = {'/', '%', '>>', '<', '<=', '>', '>='}


class Sig:
    """what the name says: kind, C operator, operand domain (i/f/d/ld), width (64/32), signed (True/False/None=don't care),
    modes = [(mode, out?)...] or None for variable arity"""

    def __init__(self, name, kind, op=None, dom='i', width=64, signed=None, modes=None, res_dom=None, extra=None):
        self.name, self.kind, self.op, self.dom, self.width, self.signed = name, kind, op, dom, width, signed
        self.modes = modes
        self.res_dom = res_dom or dom
        self.extra = extra or {}

    def __repr__(self):
        return 'Sig(%s %s op=%s dom=%s w=%s signed=%s)' % (self.name, self.kind, self.op, self.dom, self.width, self.signed)


def _m(dom, out=False):
    return (MODE[dom], out)


LABEL = ('MIR_OP_LABEL', False)
UNDEF = ('MIR_OP_UNDEF', False)
REG = ('MIR_OP_REG', False)

# instructions whose meaning is given by MIR.md prose, not by the name grammar.
# (mode, is-output) per operand; None = variable arity (operands validated by dedicated code)
SPECIAL = {
    'JMP': [LABEL],
    'BT': [LABEL, _m('i')], 'BTS': [LABEL, _m('i')], 'BF': [LABEL, _m('i')], 'BFS': [LABEL, _m('i')],
    'BO': [LABEL], 'UBO': [LABEL], 'BNO': [LABEL], 'UBNO': [LABEL],
    # "takes address of a function label given as the 2nd operand and put it into 64-bit integer register or memory given
    #  as the first operand"
    'LADDR': [_m('i', True), LABEL],
    'JMPI': [_m('i')],
    'CALL': None, 'INLINE': None, 'JCALL': None, 'SWITCH': None, 'RET': None,
    'JRET': [_m('i')],
    # "Reserve memory on the stack whose size is given as the 2nd operand and assign the memory address to the 1st operand"
    'ALLOCA': [_m('i', True), _m('i')],
    # "The first insn saves the stack pointer in the operand. The second insn restores stack pointer from the operand"
    'BSTART': [_m('i', True)], 'BEND': [_m('i')],
    # "takes va_list and any memory operand and returns address of the next argument in the 1st insn operand"
    'VA_ARG': [_m('i', True), _m('i'), UNDEF],
    # "takes result address, va_list address, integer operand (size), and block type (case) number" — all inputs
    'VA_BLOCK_ARG': [_m('i'), _m('i'), _m('i'), _m('i')],
    'VA_START': [_m('i')], 'VA_END': [_m('i')],
    'LABEL': None, 'UNSPEC': None, 'USE': None, 'PHI': None, 'INVALID_INSN': None,
    # "sets property of the variable given as the 1st operand to integer constant given as the 2nd operand"
    'PRSET': [UNDEF, _m('i')],
    'PRBEQ': [LABEL, UNDEF, _m('i')], 'PRBNE': [LABEL, UNDEF, _m('i')],
    # "Take address of variable": destination integer, source must be a register (variable)
    'ADDR': [_m('i', True), REG], 'ADDR8': [_m('i', True), REG], 'ADDR16': [_m('i', True), REG], 'ADDR32': [_m('i', True), REG],
}
VARIADIC_NOPS = {'CALL': 0, 'INLINE': 0, 'JCALL': 0, 'SWITCH': 0, 'RET': 0, 'LABEL': 0, 'UNSPEC': 0, 'USE': 0, 'PHI': 0,
                 'INVALID_INSN': 0}


def parse(name):
    """name without the MIR_ prefix -> Sig, or None when the grammar has nothing to say"""
    n = name
    if n in SPECIAL:
        return Sig(n, 'special', modes=SPECIAL[n])
    m = re.fullmatch(r'(F|D|LD)?MOV', n)
    if m:
        d = FP.get(m.group(1), 'i')
        return Sig(n, 'mov', dom=d, modes=[_m(d, True), _m(d)])
    m = re.fullmatch(r'(U)?EXT(8|16|32)', n)
    if m:
        return Sig(n, 'ext', dom='i', width=int(m.group(2)), signed=(m.group(1) is None), modes=[_m('i', True), _m('i')])
    m = re.fullmatch(r'(UI|I|F|D|LD)2(I|F|D|LD)', n)
    if m:
        src = {'UI': 'i', 'I': 'i'}.get(m.group(1)) or FP[m.group(1)]
        dst = 'i' if m.group(2) == 'I' else FP[m.group(2)]
        if src == dst:
            return None
        signed = None
        if m.group(1) == 'UI':
            signed = False
        elif m.group(1) == 'I' or m.group(2) == 'I':
            signed = True
        return Sig(n, 'conv', dom=src, res_dom=dst, signed=signed, modes=[_m(dst, True), _m(src)])
    m = re.fullmatch(r'(F|D|LD)?NEG(S)?', n)
    if m and not (m.group(1) and m.group(2)):
        d = FP.get(m.group(1), 'i')
        return Sig(n, 'unary', op='-', dom=d, width=32 if m.group(2) else 64, modes=[_m(d, True), _m(d)])
    # overflow arithmetic
    m = re.fullmatch(r'(U)?(ADD|SUB|MUL)O(S)?', n)
    if m and not (m.group(1) and m.group(2) != 'MUL'):
        return Sig(n, 'overflow', op=ARITH[m.group(2)], dom='i', width=32 if m.group(3) else 64,
                   signed=(m.group(1) is None) if m.group(2) == 'MUL' else None,
                   modes=[_m('i', True), _m('i'), _m('i')])
    # floating arithmetic
    m = re.fullmatch(r'(F|D|LD)(ADD|SUB|MUL|DIV)', n)
    if m:
        d = FP[m.group(1)]
        return Sig(n, 'arith', op=ARITH[m.group(2)], dom=d, modes=[_m(d, True), _m(d), _m(d)])
    # integer arithmetic / logic
    m = re.fullmatch(r'(U)?(ADD|SUB|MUL|DIV|MOD|AND|OR|XOR|LSH|RSH)(S)?', n)
    if m:
        u, base, s = m.groups()
        op = ARITH.get(base) or LOGIC[base]
        if u and op not in ('/', '%', '>>'):
            return None  # e.g. the documented-but-nonexistent UMUL: no convention
        signed = (u is None) if op in SIGN_MATTERS else None
        return Sig(n, 'arith', op=op, dom='i', width=32 if s else 64, signed=signed, modes=[_m('i', True), _m('i'), _m('i')])
    # comparisons
    m = re.fullmatch(r'(U|F|D|LD)?(EQ|NE|LT|LE|GT|GE)(S)?', n)
    if m:
        p, base, s = m.groups()
        if p in FP:
            if s:
                return None
            d = FP[p]
            return Sig(n, 'cmp', op=CMP[base], dom=d, res_dom='i', modes=[_m('i', True), _m(d), _m(d)])
        if p == 'U' and base in ('EQ', 'NE'):
            return None
        op = CMP[base]
        signed = (p is None) if op in SIGN_MATTERS else None
        return Sig(n, 'cmp', op=op, dom='i', width=32 if s else 64, signed=signed, modes=[_m('i', True), _m('i'), _m('i')])
    # compare and branch
    m = re.fullmatch(r'(U|F|D|LD)?B(EQ|NE|LT|LE|GT|GE)(S)?', n)
    if m:
        p, base, s = m.groups()
        if p in FP:
            if s:
                return None
            d = FP[p]
            return Sig(n, 'bcmp', op=CMP[base], dom=d, res_dom=None, modes=[LABEL, _m(d), _m(d)])
        if p == 'U' and base in ('EQ', 'NE'):
            return None
        op = CMP[base]
        signed = (p is None) if op in SIGN_MATTERS else None
        return Sig(n, 'bcmp', op=op, dom='i', width=32 if s else 64, signed=signed, modes=[LABEL, _m('i'), _m('i')])
    return None


def expected_text_name(enumerator):
    """textual instruction name for an enumerator MIR_X: lower case without the prefix"""
    assert enumerator.startswith('MIR_')
    n = enumerator[4:].lower()
    return {'invalid_insn': 'invalid-insn'}.get(n, n)
