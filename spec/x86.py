"""x86-64 ISA facts used as ground truth by RF9 (Intel SDM vol. 2; not derived from the source under analysis)."""
# tttn condition nibble of SETcc (0F 9n), Jcc rel8 (7n), Jcc rel32 (0F 8n)
CC_SIGNED = {'==': 0x4, '!=': 0x5, '<': 0xC, '<=': 0xE, '>': 0xF, '>=': 0xD}
CC_UNSIGNED = {'==': 0x4, '!=': 0x5, '<': 0x2, '<=': 0x6, '>': 0x7, '>=': 0x3}   # also after ucomiss/ucomisd/fcomip
CC_OVERFLOW = {'BO': 0x0, 'BNO': 0x1, 'UBO': 0x2, 'UBNO': 0x3}
# two-operand ALU operations: opcode bytes (r/m,r  and  r,r/m forms) and the /digit of the 81 / 83 immediate group
ALU = {'+': ({'01', '03'}, 0), '|': ({'09', '0B'}, 1), '&': ({'21', '23'}, 4), '-': ({'29', '2B'}, 5), '^': ({'31', '33'}, 6),
       'cmp': ({'39', '3B'}, 7)}
# shift group (C1 / D1 / D3) /digit
SHIFT = {'<<': 4, '>>s': 7, '>>u': 5}
# F7 group /digit
F7 = {'neg': 3, 'mul': 4, 'imul': 5, 'div': 6, 'idiv': 7}
# extensions
MOVSX = {8: '0F BE', 16: '0F BF', 32: '63'}
MOVZX = {8: '0F B6', 16: '0F B7', 32: '8B'}   # 32-bit zero extension is a plain 32-bit mov
